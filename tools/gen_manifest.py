#!/venv/bin/python
"""Regenerate MANIFEST.json from the property modules (single source of truth for the interface).

A property is *claimed* when its module ``ztv/props/cNN.py`` exists and its PROP has ``registered = True``;
everything else is listed under not_applicable with the reason given in NOT_CLAIMED (or a default).
"""
import json
import os
import sys

HERE = os.path.dirname(os.path.dirname(os.path.abspath(__file__)))
sys.path.insert(0, HERE)
from ztv import boot  # noqa: E402

boot.bootstrap()
from ztv import engine  # noqa: E402

NOT_CLAIMED = {}
ALL = ['C%02d' % i for i in range(1, 21)]


def main():
    checks = []
    na = []
    for pid in ALL:
        try:
            prop = engine.load_prop(pid)
        except ImportError:
            if os.path.exists(os.path.join(HERE, 'ztv', 'props', pid.lower() + '.py')):
                raise       # the module exists: wrong interpreter (run with /venv/bin/python), never un-claim silently
            prop = None
        if prop is None or not getattr(prop, 'registered', False):
            na.append({'property_id': pid, 'reason': NOT_CLAIMED.get(
                pid, 'check not built yet (work in progress); DESIGN.md describes the planned generated check and it '
                     'will be registered as soon as it is quiet on the unchanged tree')})
            continue
        checks.append({
            'property_id': pid,
            'quick_cmd': './check %s quick' % pid,
            'thorough_cmd': './check %s thorough' % pid,
            'evidence_file': 'evidence/%s.json' % pid,
            'replay_cmd_template': './check %s --replay {path}' % pid,
            'engine': 'ztv',
            'level_claimed': {'category': prop.level, 'text': prop.level_text,
                              'design_ref': 'DESIGN.md 3 (%s)' % pid},
            'level_note': prop.level_note,
            'technique': prop.technique,
        })
    manifest = {
        'version': 1,
        'setup_cmd': '(/venv/bin/python -c "import hypothesis" 2>/dev/null || /venv/bin/pip install --no-index '
                     '--find-links /opt/veriftools/wheels hypothesis) && (/venv/bin/pip install -q --no-index '
                     '--find-links /opt/veriftools/wheels --target /verif/.deps atheris >/dev/null 2>&1 || true)',
        'hooks': {
            'guard': 'ZOPE_TESTRUNNER_VERIF',
            'enable': 'no source hooks are needed: checks import /repo/src directly (ztv/boot.py) and observe '
                      'through generated test worlds, so nothing is built or enabled',
            'baseline_off_cmd': 'cd /repo && /venv/bin/python -m pytest -ra -q -p no:cacheprovider --timeout=900 '
                                '--continue-on-collection-errors',
            'source_commits': [],
            'add_only': True,
        },
        'engines': [{
            'name': 'ztv', 'path': 'ztv/',
            'serves_properties': [c['property_id'] for c in checks],
            'kind_free_text': 'Hypothesis-driven generated test worlds / inputs, exhaustive small-scope enumeration, '
                              'harness-owned schedules (barrier files), atheris campaigns (C20 thorough; optional), '
                              'explicit oracles over a pid-tagged event trace; 16 worker processes; shrunk failures '
                              'become replay files',
        }],
        'checks': checks,
        'notes': 'All checks: ./check <ID> <quick|thorough>; replay: ./check <ID> --replay <file>. '
                 'Exit 0 held / 1 VIOLATION / 2 harness error or inconclusive. VERIF_SEED selects the Hypothesis seeds.',
    }
    if na:
        manifest['not_applicable'] = na
    with open(os.path.join(HERE, 'MANIFEST.json'), 'w') as f:
        json.dump(manifest, f, indent=1)
        f.write('\n')
    print('claimed:', [c['property_id'] for c in checks])


if __name__ == '__main__':
    main()
