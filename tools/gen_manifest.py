#!/usr/bin/env python3
"""Regenerate MANIFEST.json from the table below (single source of truth for the interface)."""
import json
import os

HERE = os.path.dirname(os.path.dirname(os.path.abspath(__file__)))

# id -> (technique, level text, level note, design ref)
CHECKS = {
    'C01': ('Hypothesis-generated layer DAGs/faults/options run through the real Runner (children are real '
            'runner processes); stack invariant over the pid-tagged hook trace and over the printed lines',
            'Generated layer graphs (single/multiple inheritance, class/instance, any hook subset), fault placements '
            '(setUp/tearDown exception, NotImplementedError) and option sets (--layer,-x,--repeat,--shuffle,-j) are '
            'run; a state invariant (set-up set == test closure, bases before, derived torn down first, exactly one '
            'tear-down attempt, nothing after NotImplementedError, remaining layers in fresh processes) is checked at '
            'every event of every process.',
            'Trusts the world runtime to log hooks faithfully; hook-less layers are only observed through the '
            'runner\'s own Set up/Tear down lines; MemoryError/EndRun paths are not driven.',
            'DESIGN.md 3 (C01)'),
    'C08': ('exhaustive small pattern pool + Hypothesis pattern lists vs. algebraic spec; metamorphic laws; '
            'end-to-end generated worlds with -t/-m/--layer/legacy filters',
            'build_filtering_func is compared pointwise with the three-line spec over generated pattern lists and '
            'names, with permutation/duplication invariance and the two monotonicity laws; end to end the executed '
            'tests, imported modules and layers run of generated worlds must equal what the spec selects.',
            'Trusts re.search as matcher; empty pattern lists (never fed by the runner) are not asserted.',
            'DESIGN.md 3 (C08)'),
    'C20': ('exhaustive small-scope enumeration + Hypothesis random graphs vs. reachability-closure oracle',
            'Every digraph on <=4 nodes (with self-loops) is enumerated in several insertion orders / node kinds / '
            'call patterns and compared with an independent reference partition; Hypothesis graphs of 5..14 nodes '
            'extend this beyond the bound. Exhaustive inside the bound, sampled beyond.',
            'Trusts the Warshall-closure reference implementation in ztv/props/c20.py and CPython set/dict semantics.',
            'DESIGN.md 3 (C20)'),
    'C05': ('Hypothesis-generated worlds run in-process; bracket/balance invariant over the hook trace',
            'Generated layer DAGs with per-test hooks on any subset and histories of tests of every outcome kind '
            '(incl. --repeat/--shuffle) are run through the real Runner; an invariant over the pid-tagged trace '
            'checks once-per-layer, bases-first, mirrored tear-down and per-layer balance at every event.',
            'Trusts the world runtime (ztv/runtime.py) to log the layer a hook is called on; only Python 3.12.1 '
            'behaviour of unittest is exercised.',
            'DESIGN.md 3 (C05)'),
}

NOT_YET = {}

ALL = ['C%02d' % i for i in range(1, 21)]


def main():
    checks = []
    for pid in ALL:
        if pid not in CHECKS:
            continue
        tech, text, note, ref = CHECKS[pid]
        checks.append({
            'property_id': pid,
            'quick_cmd': './check %s quick' % pid,
            'thorough_cmd': './check %s thorough' % pid,
            'evidence_file': 'evidence/%s.json' % pid,
            'replay_cmd_template': './check %s --replay {path}' % pid,
            'engine': 'ztv',
            'level_claimed': {'category': 'exploration', 'text': text, 'design_ref': ref},
            'level_note': note,
            'technique': tech,
        })
    na = [{'property_id': pid, 'reason': NOT_YET.get(pid, 'check not built yet in this session (work in progress); '
                                                       'the design in DESIGN.md claims it and it will be registered '
                                                       'as soon as its check is quiet on the unchanged tree')}
          for pid in ALL if pid not in CHECKS]
    manifest = {
        'version': 1,
        'setup_cmd': '/venv/bin/python -c "import hypothesis" 2>/dev/null || /venv/bin/pip install --no-index '
                     '--find-links /opt/veriftools/wheels hypothesis',
        'hooks': {
            'guard': 'ZOPE_TESTRUNNER_VERIF',
            'enable': 'no source hooks are needed: checks import /repo/src directly (ztv/boot.py) and observe '
                      'through generated test worlds, so nothing is built or enabled',
            'baseline_off_cmd': 'cd /repo && /venv/bin/python -m pytest -ra -q -p no:cacheprovider --timeout=900 '
                                '--continue-on-collection-errors',
            'source_commits': [],
            'add_only': True,
        },
        'engines': [{
            'name': 'ztv', 'path': 'ztv/',
            'serves_properties': [c['property_id'] for c in checks],
            'kind_free_text': 'Hypothesis-driven generated test worlds / inputs, exhaustive small-scope enumeration, '
                              'explicit oracles over a pid-tagged event trace; 16 worker processes; shrunk failures '
                              'become replay files',
        }],
        'checks': checks,
        'notes': 'All checks: ./check <ID> <quick|thorough>; replay: ./check <ID> --replay <file>. '
                 'Exit 0 held / 1 VIOLATION / 2 harness error or inconclusive. VERIF_SEED selects the Hypothesis seeds.',
    }
    if na:
        manifest['not_applicable'] = na
    with open(os.path.join(HERE, 'MANIFEST.json'), 'w') as f:
        json.dump(manifest, f, indent=1)
        f.write('\n')


if __name__ == '__main__':
    main()
