#!/venv/bin/python
import json, os, sys, tempfile, shutil
sys.path.insert(0, '/verif')
from ztv import boot
boot.bootstrap()
from ztv import drive, fstree
from ztv.props import c14
rep = json.load(open(sys.argv[1])); case = rep['case']
tmp = tempfile.mkdtemp(); base = os.path.join(os.path.realpath(tmp), 'r')
fstree.write_tree(case['tree'], base, case['create_seed'])
want, excl, mn = c14.expected_files(case, base)
print('want', [w[len(base)+1:] for w in want])
args = ['--tests-pattern', case['tests_pattern'], '--test-file-pattern', case['file_pattern'], '--list-tests']
for r in case['roots']:
    args += ['--path', os.path.join(base, r) if r else base]
for m in case['module']: args += ['-m', m]
print(args)
trace = os.path.join(tmp, 't')
run = drive.run_raw(args, trace_path=trace, purge_under=base)
print(run.out[-3000:]); print(run.exc_tb)
print([e['file'][len(base)+1:] for e in fstree.read_trace(trace)])
os.system('find %s | sort' % base)
shutil.rmtree(tmp)
