#!/usr/bin/env python3
"""Insert the detection table (seeded/RESULTS.json + seeded/*/meta.json) into DESIGN.md between the MATRIX markers."""
import glob
import json
import os
import re

HERE = os.path.dirname(os.path.dirname(os.path.abspath(__file__)))


def main():
    res = json.load(open(os.path.join(HERE, 'seeded', 'RESULTS.json')))
    rows = []
    for name in sorted(res, key=lambda n: (not re.match(r'C\d\d-\d+$', n), n[:3], int(n.split('-')[1]) if re.match(r'C\d\d-\d+$', n) else 0, n)):
        per = res[name]
        mp = os.path.join(HERE, 'seeded', name, 'meta.json')
        needs = ''
        if os.path.exists(mp):
            needs = json.load(open(mp)).get('needs_to_manifest', '')
        cells = []
        for chk in sorted(per, key=lambda c: (c != name[:3], c)):
            r = per[chk]
            if r.get('exit') == 1:
                cells.append('**%s** `%s`' % (chk, (r.get('signatures') or ['?'])[0]))
            elif r.get('exit') == 0:
                cells.append('%s: not detected (quick, %s cases)' % (chk, r.get('cases')))
            else:
                cells.append('%s: exit %s %s' % (chk, r.get('exit'), (r.get('error') or r.get('tail') or '')[:60].replace('\n', ' ')))
        rows.append('| %s | %s | %s |' % (name, needs.replace('|', '\\|')[:230], '; '.join(cells)))
    own = [(n, per) for n, per in res.items() if re.match(r'C\d\d-\d+$', n)]
    caught_own = sum(1 for n, per in own if per.get(n[:3], {}).get('exit') == 1)
    caught_any = sum(1 for n, per in own if any(r.get('exit') == 1 for r in per.values()))
    head = ('Detection by the **quick** tier at seed 0 (`tools/seedmatrix.py`, final state of the checks): %d seeded changes, '
            '%d caught by the check of the property they were written against, %d caught by at least one registered check; '
            'the hand-written mutants are listed last. Rows without a case count were measured by `tools/seedcheck.py` during the '
            'confirmation of their round; rows of changes that were already caught were not all re-measured after later '
            'strengthening of the same check (a complete matrix takes several hours on this machine).\n\n| change | needs in order to manifest | caught by (first signature) |\n|---|---|---|\n'
            % (len(own), caught_own, caught_any))
    table = head + '\n'.join(rows) + '\n'
    p = os.path.join(HERE, 'DESIGN.md')
    s = open(p).read()
    if '<!-- MATRIX -->' in s and '<!-- /MATRIX -->' not in s:
        s = s.replace('<!-- MATRIX -->', '<!-- MATRIX -->\n<!-- /MATRIX -->')
    s = re.sub(r'<!-- MATRIX -->.*?<!-- /MATRIX -->', lambda m: '<!-- MATRIX -->\n' + table + '<!-- /MATRIX -->', s, flags=re.S)
    open(p, 'w').write(s)
    print('seeded %d, own %d, any %d' % (len(own), caught_own, caught_any))


if __name__ == '__main__':
    main()
