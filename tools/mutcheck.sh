#!/bin/sh
# usage: tools/mutcheck.sh <patchfile> <ID> [tier]
# Sensitivity test: apply a patch to a scratch copy of /repo/src (outside /repo and /verif), run one check against the
# copy (ZTV_REPO_SRC) with evidence/replays redirected into the scratch dir (ZTV_OUT), remove the copy.
# Expected: exit 1 with VIOLATION lines.  /repo, /verif/evidence and /verif/replays are never touched.
patch="$(readlink -f "$1")"; id="$2"; tier="${3:-quick}"
d=$(mktemp -d /tmp/mut.XXXXXX)
mkdir -p "$d/repo" && cp -r /repo/src "$d/repo/src" || exit 2
( cd "$d/repo" && patch -s -p1 < "$patch" ) || { echo "patch does not apply"; rm -rf "$d"; exit 2; }
find "$d" -name __pycache__ -prune -exec rm -rf {} +
cd /verif
ZTV_REPO_SRC="$d/repo/src" ZTV_OUT="$d/out" ./check "$id" "$tier" > "$d/log" 2>&1
rc=$?
grep -E "^  C[0-9]+/|^VIOLATION|^HARNESS|seed=" "$d/log" | cut -c1-400 | head -${MUT_LINES:-8}
rm -rf "$d"
echo "mutant $(basename "$patch") vs $id $tier: exit $rc"
exit $rc
