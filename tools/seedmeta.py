#!/usr/bin/env python3
"""Write seeded/<id>/meta.json from the table below + the confirmation results of tools/seedcheck.py.

usage: seedmeta.py <dir with seedcheck result JSON files named <id>.json / <id>.recheck.json>
"""
import glob
import json
import os
import re
import sys

NEEDS = {
    'C01-1': ('C01', 'a layer tearDown raising an ordinary exception in the middle of the run (torn down to make room for an unrelated later layer): the layer stays recorded as set up and is torn down a second time'),
    'C01-2': ('C01', 'a base layer whose setUp raises while the stack of a derived layer (>=2 levels) is built: the intermediate layer stays recorded as set up, tests of the top layer run without their bases'),
    'C02-1': ('C02', 'an import failure combined with -t PATTERN not matching the start-up failure, or --only-level N != 1: the failure is filtered away, verdict passed'),
    'C02-2': ('C02', 'a layer subprocess whose interpreter shutdown writes to fd 2 after the report (atexit hook): complete report rejected, verdict failed'),
    'C03-1': ('C03', '--package-path DIR PKG with DIR inside a tree also searched by --path: (file, package) de-duplication key loads the module twice, tests run twice'),
    'C03-2': ('C03', '--shuffle-seed N with layers in subprocesses (-j N / resumed), layer not first in sorted name order: child shuffles only its own layer, order differs from --list-tests'),
    'C04-1': ('C04', 'a layer setUp/tearDown raising an exception whose __cause__ chain is cyclic ("raise e from z" re-raise idiom): unbounded recursion aborts the run (patch rebased onto fix ba173e9, same resulting code)'),
    'C04-2': ('C04', '--color and a traceback with a File line without ", in <name>" (SyntaxError/IndentationError raised by a test): AttributeError inside addError aborts the run'),
    'C05-1': ('C05', 'a layer that defines testTearDown but no testSetUp: its testTearDown is never called'),
    'C05-2': ('C05', '-D/--post-mortem and a test that raises: stopTest (and with it testTearDown) is skipped when post_mortem raises EndRun'),
    'C06-1': ('C06', '-j N with more layers than N and a later-started layer finishing before an earlier one: the finished thread keeps its slot, fewer than N layers in flight'),
    'C06-2': ('C06', 'layers in subprocesses with skipped tests: the per-result skipped list is never merged, Total reports 0 skipped'),
    'C07-1': ('C07', 'something written to the child\'s fd 2 after the report (atexit hook): every trailing line is recorded as an errored test'),
    'C07-2': ('C07', 'child dies after writing the header and all but the last announced name: off-by-one completeness check trusts the partial report'),
    'C08-1': ('C08', '>=2 patterns of one polarity of which one uses an inline flag / a back-referenced or named group: patterns are joined into one alternation'),
    'C08-2': ('C08', '--package-path with a package and a -m pattern looking at the package prefix: the module filter sees the name without the prefix'),
    'C09-1': ('C09', 'a TestSuite carrying level N that contains a case/suite declaring a lower level, run with 0 < at_level < N: the suite is pruned'),
    'C09-2': ('C09', '-f combined with a --layer pattern that the unit layer\'s name satisfies: --layer is consulted before --non-unit'),
    'C10-1': ('C10', 'a diamond plus an unrelated extra base listed last whose name sorts first: a shared base is visited once only, a layer runs before its base'),
    'C10-2': ('C10', 'two selected layers whose dotted names differ only in letter case + a different discovery order: sort keys tie, order follows discovery'),
    'C11-1': ('C11', '--shuffle-seed N and the layer runs in a subprocess, not the alphabetically first layer: only the resumed layer\'s suite is registered, the child shuffles with a fresh generator'),
    'C11-2': ('C11', '--shuffle without seed, then re-run with the reported seed: the generator was seeded from OS entropy, not from the reported number'),
    'C12-1': ('C12', 'a layer in a subprocess with >=1 failure and >=1 error, -v: the child sends errors before failures, names land in the wrong lists'),
    'C12-2': ('C12', '-v and an ordinary failing test in a layer that ran in a subprocess: (name, None) records are listed under a new heading instead of "Tests with failures"'),
    'C13-1': ('C13', '--buffer, a test failing in its body whose fixture puts back the stream it saved in setUp: later restore calls are short-circuited, layer hooks see the buffer as sys.stdout'),
    'C13-2': ('C13', '--xml together with --buffer and a failing test that wrote to only one of stdout/stderr: the captured output is dropped'),
    'C14-1': ('C14', 'the same file reached through two search roots with different package labels (--path ROOT --package-path ROOT/foo foo): loaded twice'),
    'C14-2': ('C14', 'a tests package that also contains a module matching the tests pattern but not the test-file pattern and sorting first: load order is insertion order, not sorted'),
    'C15-1': ('C15', 'a package whose __pycache__ is a symlink to a directory: the pruning of __pycache__ no longer stops the symlink recursion, its .pyc files are deleted'),
    'C15-2': ('C15', 'an explicit --ignore_dir X: it replaces the default ignore list, orphans inside CVS/.svn/_darcs are deleted'),
    'C16-1': ('C16', '--stop-on-error, layer in a subprocess, first problem is an error / failed subtest / unexpected success: the stop branch is unreachable inside a child'),
    'C16-2': ('C16', '--stop-on-error and a layer tearDown that raises during the final clean-up while another layer is still set up: EndRun escapes, base layer not torn down, no totals'),
    'C17-1': ('C17', 'a lone surrogate (U+D800..DFFF) in an exception message or test name: not escaped, report not well-formed'),
    'C17-2': ('C17', 'one test reporting two outcomes of the same kind (error in test + error in tearDown), or --repeat on a single-test class: second record overwrites the first, counters disagree with elements'),
    'C18-1': ('C18', '--buffer and a test that fails while sys.stdout is rebound to its own stream, being the last test of its layer: streams stay replaced after the run'),
    'C18-2': ('C18', 'an exception (KeyboardInterrupt, exception from a per-test layer hook) escaping the test phase: global teardown is outside the finally, gc settings and traceback functions stay changed'),
    'C19-1': ('C19', 'a thread alive at test start ends during the test and a new leaked thread gets its recycled ident: ident-set membership hides the new thread'),
    'C19-2': ('C19', 'a _thread thread that called threading.current_thread() (stale _DummyThread entry) and finished before the test ends: reported although finished'),
    'C20-1': ('C20', 'nodes transformed by id() (the default) and a one-node component with a self-loop: neighbours looked up with a doubly transformed key, self-loop component dropped'),
    'C20-2': ('C20', 'a multi-node component completed first, then a later-visited node with an edge into one of its non-root members: only the root is unstacked, components lost or merged'),
    # ---- round 2 (three per property; the agents were also told which triggers round 1 had used)
    'C01-3': ('C01', 'a layer reaching the same not-yet-set-up base by two paths (diamond, or Top(Mid, Base) with Mid(Base)): the set-up plan is computed before anything is set up, the base is set up twice'),
    'C01-4': ('C01', 'a tearDown raising NotImplementedError mid-run while further unneeded layers (its base / a sibling base) follow in the same sweep and a layer is still to run: they are forgotten without tear-down'),
    'C01-5': ('C01', 'a layer reaching a base by two paths plus a further unrelated base whose name sorts before the shared one: the shared base is torn down before a layer derived from it'),
    'C02-3': ('C02', 'a test module that raises SystemExit (sys.exit(0)) at import time or from test_suite(): not recorded as an import failure, the runner exits 0'),
    'C02-4': ('C02', '--repeat N>1 and a test that goes wrong in an earlier iteration but not in the last: only the last iteration counts towards the verdict'),
    'C02-5': ('C02', 'one tear-down sweep in which a layer tearDown raises a real exception and a base torn down later raises NotImplementedError, with a layer still to run: the collected tear-down error is lost'),
    'C03-3': ('C03', 'a test / nested suite with its own lower level inside a TestSuite whose level is above --at-level: pruned with the suite'),
    'C03-4': ('C03', '>=2 filters of one kind, an earlier one with a capture group and a later one with a numeric back-reference: joined into one alternation, the later filter selects nothing'),
    'C03-5': ('C03', 'relative --path, a layer that cannot be torn down and an earlier in-process test that os.chdir()s: the resumed subprocess starts in the wrong directory and runs a different / no set of tests'),
    'C05-3': ('C05', 'self.skipTest() inside a with self.subTest() block in a layer with per-test hooks: the skip is reported for the _SubTest object, testSetUp runs a second time'),
    'C05-4': ('C05', '-D together with a decorator-skipped test in a layer with per-test hooks (no failure needed): addSkip fallback calls testSetUp, stopTest never runs'),
    'C05-5': ('C05', 'two or more decorator-skipped tests in a row in one layer: _test_state survives stopTest, the second one gets testTearDown without testSetUp'),
    'C06-3': ('C06', '--shuffle-seed with -j N and >=2 layers: a child skips the earlier layers when shuffling, its order (and order-dependent outcomes) differ from the sequential run'),
    'C06-4': ('C06', 'a layer in a subprocess with >=1 failure and >=1 error: the child lists errors before failures, names are cross-assigned'),
    'C06-5': ('C06', 'output on the child\'s fd 2 during interpreter shutdown: every line after the failure names is taken as an error name (phantom errors with -j N only)'),
    'C08-3': ('C08', '>=3 patterns where two of one polarity are separated by one of the other (-t a -t !b -t c): itertools.groupby overwrites the earlier run'),
    'C08-4': ('C08', 'a -t option combined with the positional MODULE TEST filter pair: the positional test filter is dropped'),
    'C08-5': ('C08', 'a --layer pattern that is exactly a layer\'s full dotted name plus a !-pattern matching it: the exact-name shortcut bypasses the veto'),
    'C09-3': ('C09', 'an explicit -a 0 / --at-level=-1 without --all: options.all set but the level test no longer treats <=0 as "all": nothing selected'),
    'C09-4': ('C09', '-u together with a selection that contains only layered tests: --unit is only consulted when a unit test was found, layered tests run'),
    'C09-5': ('C09', 'a suite declaring layer Y that contains a case/suite declaring layer X, and layer X runs in a resumed subprocess (-j N / after NIE): the child skips the whole suite'),
    'C10-3': ('C10', 'layers in subprocesses and two selected layers whose dotted names differ only where one has a dot (app.layers.DB / app_layers.DB): unescaped resume-layer regex, a layer runs twice'),
    'C10-4': ('C10', '-j N with --progress and a later layer producing output before an earlier one: immediate collector bypasses the in-order display'),
    'C10-5': ('C10', 'two selected layers whose names differ only by leading zeros (Shard01 / Shard1) met in a different discovery order: natural sort key ties'),
    'C04-3': ('C04', 'a test recording >=2 errors under one name (body + tearDown) in a layer subprocess: the child names it once while the header counts every result, the parent rejects the report'),
    'C04-4': ('C04', 'a tearDown raising NotImplementedError with bases / later siblings in the same tear-down batch and a layer still to run: the remaining layers are never torn down'),
    'C04-5': ('C04', 'a failing layer that is an object instance (no __qualname__), named with -v or in a subprocess report: AttributeError while reporting'),
    'C07-3': ('C07', 'a lost subprocess while printing the diagnostics raises (ASCII-only console, non-ASCII child stderr, -v): the error is recorded after printing, so not at all'),
    'C07-4': ('C07', 'a blank line on the child\'s fd 2 before the report plus >=1 failure: header index computed on the filtered list, names shift'),
    'C07-5': ('C07', 'a report that announces more failures than tests (several failing subtests, --repeat): rejected by a plausibility check'),
    'C11-3': ('C11', 'a test module using the process-wide random generator at import time: the shuffle draws from the global state seeded at configure time'),
    'C11-4': ('C11', 'a fixed seed, --layer/-f deselecting the unit tests, >=2 unit tests and a layer whose dotted name sorts after the unit layer: deselected unit tests are dropped before the shuffle'),
    'C11-5': ('C11', '--shuffle --shuffle-seed S -j N --list-tests: the coordinating process skips the shuffle, the listing is unshuffled'),
    'C12-3': ('C12', 'a layer subprocess that writes to its stderr after the report: completeness check == instead of >=, valid report rejected'),
    'C12-4': ('C12', '>=2 layers with tests sharing a base whose setUp raises, in one process: the second dependent layer is neither run nor counted; totals differ between modes'),
    'C12-5': ('C12', 'a module that fails to import plus layers in subprocesses: every child adds the import failure to its report, the error total grows'),
    'C13-3': ('C13', '--buffer, a test skipped in its body whose tearDown/cleanup writes output, followed by a failing test: the leftover text leaks into the next report'),
    'C13-4': ('C13', '--buffer and a failing test whose last write has no newline: line-buffered capture stream, the tail is dropped'),
    'C13-5': ('C13', '-D with --buffer and a test aborted by KeyboardInterrupt: stopTest skipped, streams stay replaced'),
    'C14-3': ('C14', 'a symlink to a directory whose name is not an identifier / is ignored (my-fixtures, node_modules): followed although the name is excluded'),
    'C14-4': ('C14', '--package-path DIR LABEL with a -m pattern referring to the label: the filter runs before the label is prepended'),
    'C14-5': ('C14', 'two -s options where the second directory name extends the first (shop, shop_admin): prefix test without separator, second package not searched'),
    'C15-3': ('C15', 'X.py, X.pyc and a file X.py.orig in one directory: itertools.groupby on stems over a listing sorted by full name splits the group, X.pyc deleted'),
    'C15-4': ('C15', 'an orphan appearing after the main scan and a layer run in a subprocess: children skip the cleanup'),
    'C15-5': ('C15', 'two sibling test paths where the later name begins with the earlier one (lib, lib_extra): the later one is never scanned'),
    'C16-3': ('C16', '-x --repeat N and the failing test is the last test of its layer: the loop ends by exhaustion, the flag stays False, further iterations run'),
    'C16-4': ('C16', '-x, sequential, >=2 layers, a module that fails to import and the first problem is an error: import problems raise the stop threshold'),
    'C16-5': ('C16', '-x --repeat N and a test failing in an iteration before the last: results only kept for the last iteration, verdict passed'),
    'C17-3': ('C17', '--xml with >=2 layers in subprocesses one starting after another finished: stale-report clean-up runs in every child and deletes earlier reports'),
    'C17-4': ('C17', '--xml with --buffer, a failing test and a control character printed before the failure: system-out text not escaped'),
    'C17-5': ('C17', 'failing subtests in >=2 different test classes in one process: class-name cache keyed before the subtest redirect'),
    'C18-3': ('C18', 'interpreter started with -W and something in the run changes the warnings filters: catch_warnings skipped'),
    'C18-4': ('C18', '--coverage plus a test that sets and clears its own trace function: stop() leaves it installed'),
    'C18-5': ('C18', '--profile cProfile with the default relative directory plus a test leaving the cwd changed: the failing stats step skips every other teardown'),
    'C19-3': ('C19', 'a raw _thread thread already running before a test starts: identity hash on fresh DummyThread proxies, reported for every later test'),
    'C19-4': ('C19', 'a test starts a thread it leaves running, then ends via skipTest: the snapshot is re-taken at the skip, the leak is never reported'),
    'C19-5': ('C19', '--ignore-new-thread and a leaked thread whose name contains but does not start with the pattern: search instead of match'),
    'C20-3': ('C20', 'a cross edge into a node still on the stack in a sibling subtree that already returned: depth used instead of a visit counter'),
    'C20-4': ('C20', 'a node with >=2 edges to stacked ancestors processed far-then-near: low-link compared with dfs instead of low'),
    'C20-5': ('C20', 'the graph described incrementally (several add_neighbors calls per node): a second call replaces the earlier neighbours'),
}


def needs_from_notes(path):
    """round 3 onwards: title of the agent's notes + its 'What is needed ... to manifest' section"""
    try:
        txt = open(path).read()
    except OSError:
        return ''
    title = txt.splitlines()[0].lstrip('# ').strip() if txt else ''
    title = title.split(' — ', 1)[-1]
    m = re.search(r'^##[^\n]*needed[^\n]*\n(.*?)(?=^## |\Z)', txt, re.M | re.S | re.I)
    body = ' '.join(m.group(1).split()) if m else ''
    if len(body) > 700:
        body = body[:700].rsplit(' ', 1)[0] + ' ...'
    return (title + ': ' + body).strip(': ')


def main():
    resdir = sys.argv[1] if len(sys.argv) > 1 else '/tmp/seedres'
    here = os.path.dirname(os.path.dirname(os.path.abspath(__file__)))
    for d in sorted(glob.glob(os.path.join(here, 'seeded', 'C*-*'))):
        sid = os.path.basename(d)
        if sid in NEEDS:
            prop, needs = NEEDS[sid]
        else:
            prop, needs = sid[:3], needs_from_notes(os.path.join(d, 'notes.md'))
        meta_path = os.path.join(d, 'meta.json')
        meta = json.load(open(meta_path)) if os.path.exists(meta_path) else {}
        meta.update({'id': sid, 'breaks_property': prop, 'needs_to_manifest': needs,
                     'source': 'written by a fresh sub-agent that was given only the text of property %s and its own scratch '
                               'worktree of /repo (nothing from /verif)' % prop,
                     'files': sorted(os.listdir(d))})
        res = None
        for cand in (os.path.join(resdir, sid + '.recheck.json'), os.path.join(resdir, sid + '.json')):
            if os.path.exists(cand):
                try:
                    res = json.load(open(cand))
                    break
                except ValueError:
                    pass
        if not res and not os.path.exists(meta_path):
            continue          # not confirmed yet
        if res:
            meta['confirmed'] = {
                'how': 'tools/seedcheck.py in a scratch worktree of /repo HEAD (removed afterwards): demo on the clean tree, '
                       'patch applied, demo again, pinned pytest baseline and the complete upstream suite (90 tests) with '
                       'the patch',
                'demo_exit_clean_tree': res.get('demo_clean'), 'demo_exit_patched_tree': res.get('demo_patched'),
                'pinned_pytest_clean': res.get('pinned_clean'), 'pinned_pytest_patched': res.get('pinned_patched'),
                'pinned_same_results': res.get('pinned_same'), 'upstream_suite_patched': res.get('upstream_patched'),
            }
        with open(meta_path, 'w') as f:
            json.dump(meta, f, indent=1, sort_keys=True)
            f.write('\n')
    print('ok')


if __name__ == '__main__':
    main()
