#!/bin/sh
# usage: seedround.sh OUTDIR LANES ID...   — tools/seedcheck.py for each seeded/<ID> (confirmation + its own quick check)
out=$1; lanes=$2; shift 2
mkdir -p "$out"
printf '%s\n' "$@" | xargs -P "$lanes" -I{} sh -c 'id={}; chk=$(echo $id | cut -c1-3); /venv/bin/python /verif/tools/seedcheck.py /verif/seeded/$id $chk quick > '"$out"'/$id.json 2> '"$out"'/$id.err'
