#!/bin/sh
# usage: tools/seedsrc.sh <seed-id>   -- scratch copy of /repo/src with seeded/<id>/patch.diff applied; prints its path
# (use as ZTV_REPO_SRC=<path> together with ZTV_OUT=/tmp/ss.<id>/out; remove /tmp/ss.<id> afterwards)
id="$1"; d=/tmp/ss.$id
rm -rf "$d"; mkdir -p "$d/repo"
cp -r /repo/src "$d/repo/src"
find "$d" -name __pycache__ -prune -exec rm -rf {} + 2>/dev/null
p=/verif/seeded/$id/patch.diff; [ -f "$p" ] || p=/verif/mutants/$id.patch
(cd "$d/repo" && patch -s -p1 < "$p") || { echo "patch failed" >&2; exit 2; }
echo "$d/repo/src"
