#!/venv/bin/python
"""debug helper: run a C07/C02 replay and print the parent's output and the children seen in the trace"""
import json, sys
sys.path.insert(0, '/verif')
from ztv import boot
boot.bootstrap()
from ztv.props import common, chan
import importlib
rep = json.load(open(sys.argv[1]))
mod = importlib.import_module('ztv.props.' + rep['property'].lower())
case = rep['case']
spec = common.with_prefix(case['spec'])
run = mod.run_case(case, spec)
print(run.out[-3000:]); print('ERR', run.err[-1500:]); print(run.exc_tb)
for pid, c in chan.children(run).items():
    print(pid, c.layer, 'died', c.died, 'report', c.report, 'cut', c.cut, 'pre', c.pre[:80], 'post', c.post[:80], len(c.tests))
print([e for e in run.trace if e['ev'] not in ('T', 'L')][:20])
