#!/bin/sh
# usage: tools/mut.sh <patchfile> <ID> [tier]   -- apply a patch to /repo, run one check, always revert
patch="$1"; id="$2"; tier="${3:-quick}"
cd /repo || exit 2
git diff --quiet || { echo "repo dirty"; exit 2; }
git apply "$patch" || { echo "patch does not apply"; exit 2; }
cd /verif
rm -rf /tmp/ev.bak; cp -r evidence /tmp/ev.bak
./check "$id" "$tier" | tail -8
rc=$?
git -C /repo checkout -- .
# never keep replays or evidence produced against a mutated tree
rm -rf /verif/evidence; mv /tmp/ev.bak /verif/evidence
git -C /verif clean -fdq replays
exit $rc
