#!/bin/sh
# Run zope.testrunner's own full test-suite (90 tests incl. every doctest) against /repo's working tree.
# The pinned baseline cannot import most of them (namespace clash); the ztv bootstrap can. Used to
# vet "fix:" commits beyond the 42 pinned tests.
cd /tmp && exec /venv/bin/python /verif/ztv/zt_main.py --test-path /repo/src -s zope.testrunner "$@"
