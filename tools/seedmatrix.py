#!/usr/bin/env python3
"""Run the registered quick checks against every seeded change (seeded/*/patch.diff) and every hand-written mutant
(mutants/*.patch): which check catches which change.

Each change is applied to a scratch copy of /repo/src under /tmp (removed afterwards); the check runs against the copy
(ZTV_REPO_SRC) with evidence/replays redirected (ZTV_OUT).  /repo and /verif's evidence are never touched.
Results: seeded/RESULTS.json (also merged into each seeded/<id>/meta.json as "detection").

usage: seedmatrix.py [--lanes N] [--only ID[,ID..]] [--tier quick]
"""
import concurrent.futures
import glob
import json
import os
import re
import shutil
import subprocess
import sys
import tempfile
import time

HERE = os.path.dirname(os.path.dirname(os.path.abspath(__file__)))
ALSO = {'C02-2': ['C07'], 'C03-1': ['C14'], 'C03-2': ['C11'], 'C05-2': ['C18'], 'C06-2': ['C12'], 'C07-1': ['C02'],
        'C07-2': ['C02'], 'C08-2': ['C14'], 'C11-1': ['C03'], 'C12-1': ['C07'], 'C14-1': ['C03'], 'C16-2': ['C04'],
        'C18-1': ['C13'], 'C03-7': ['C14'], 'C12-7': ['C07', 'C02'], 'C06-9': ['C07', 'C02'],
        # round 2: changes that are (also) caught by the check of a neighbouring property
        'C02-4': ['C12'], 'C03-3': ['C09'], 'C03-4': ['C08'], 'C04-3': ['C12'], 'C04-4': ['C01'], 'C06-3': ['C11'],
        'C06-4': ['C12'], 'C06-5': ['C07'], 'C09-5': ['C03'], 'C10-3': ['C06'], 'C10-4': ['C06'], 'C11-5': ['C03'],
        'C12-3': ['C07'], 'C12-4': ['C06'], 'C13-5': ['C18'], 'C14-5': ['C03'], 'C16-5': ['C02'],
        # rounds 4 and 5
        'C10-9': ['C07'], 'C06-10': ['C03'], 'C10-10': ['C12'], 'C16-12': ['C04', 'C01'], 'C04-12': ['C01'],
        'C05-12': ['C01'], 'C15-11': ['C14'],
        # round 6
        'C02-14': ['C07'], 'C03-14': ['C08'], 'C03-13': ['C09'], 'C12-11': ['C04', 'C07'], 'C16-13': ['C18']}
MUTANT_CHECKS = {'c06-': ['C06'], 'd20-': ['C04']}


def run_one(name, patch, check, tier):
    d = tempfile.mkdtemp(prefix='mut.', dir='/tmp')
    try:
        os.makedirs(d + '/repo')
        shutil.copytree('/repo/src', d + '/repo/src', ignore=shutil.ignore_patterns('__pycache__'))
        p = subprocess.run('patch -s -p1 < %s' % patch, shell=True, cwd=d + '/repo', stdout=subprocess.PIPE,
                           stderr=subprocess.STDOUT)
        if p.returncode:
            return {'exit': None, 'error': 'patch does not apply: ' + p.stdout.decode()[-200:]}
        env = dict(os.environ, ZTV_REPO_SRC=d + '/repo/src', ZTV_OUT=d + '/out')
        t0 = time.time()
        p = subprocess.run([os.path.join(HERE, 'check'), check, tier], cwd=HERE, env=env, stdout=subprocess.PIPE,
                           stderr=subprocess.STDOUT)
        out = p.stdout.decode('utf-8', 'replace')
        sigs = sorted({m.group(1) for m in re.finditer(r'^  (C\d\d/[^:]+):', out, re.M)})
        m = re.search(r'seed=\d+: (\d+) cases', out)
        return {'exit': p.returncode, 'violations': len(re.findall(r'^VIOLATION', out, re.M)), 'signatures': sigs[:8],
                'cases': int(m.group(1)) if m else None, 'wall_s': round(time.time() - t0),
                'tail': out[-400:] if p.returncode not in (0, 1) else ''}
    finally:
        shutil.rmtree(d, ignore_errors=True)


def main():
    args = sys.argv[1:]
    lanes = int(args[args.index('--lanes') + 1]) if '--lanes' in args else 3
    only = set(args[args.index('--only') + 1].split(',')) if '--only' in args else None
    tier = args[args.index('--tier') + 1] if '--tier' in args else 'quick'
    jobs = []
    for d in sorted(glob.glob(os.path.join(HERE, 'seeded', 'C*-*'))):
        sid = os.path.basename(d)
        if only and sid not in only:
            continue
        for chk in [sid[:3]] + ALSO.get(sid, []):
            jobs.append((sid, os.path.join(d, 'patch.diff'), chk))
    for pth in sorted(glob.glob(os.path.join(HERE, 'mutants', '*.patch'))):
        name = os.path.basename(pth)[:-6]
        if only and name not in only:
            continue
        for pre, chks in MUTANT_CHECKS.items():
            if name.startswith(pre):
                for chk in chks:
                    jobs.append((name, pth, chk))
    results = {}
    respath = os.path.join(HERE, 'seeded', 'RESULTS.json')
    if os.path.exists(respath) and only:
        results = json.load(open(respath))
    with concurrent.futures.ThreadPoolExecutor(lanes) as ex:
        futs = {ex.submit(run_one, n, p, c, tier): (n, c) for n, p, c in jobs}
        for f in concurrent.futures.as_completed(futs):
            n, c = futs[f]
            r = f.result()
            results.setdefault(n, {})[c] = r
            print('%-28s %s exit=%s viol=%s %ss %s' % (n, c, r.get('exit'), r.get('violations'), r.get('wall_s'),
                                                       (r.get('signatures') or [''])[0]), flush=True)
            with open(respath, 'w') as fh:
                json.dump(results, fh, indent=1, sort_keys=True)
    for sid, per in results.items():
        mp = os.path.join(HERE, 'seeded', sid, 'meta.json')
        if os.path.exists(mp):
            meta = json.load(open(mp))
            meta['detection'] = {c: {'tier': tier, 'detected': r.get('exit') == 1, 'exit': r.get('exit'),
                                     'signatures': r.get('signatures'), 'cases': r.get('cases')} for c, r in per.items()}
            with open(mp, 'w') as fh:
                json.dump(meta, fh, indent=1, sort_keys=True)
                fh.write('\n')
    missed = [(n, c) for n, per in results.items() for c, r in per.items() if r.get('exit') != 1 and c == n[:3]]
    print('missed by own check:', missed)


if __name__ == '__main__':
    main()
