#!/usr/bin/env python3
"""Copy the deliverables of a sub-agent round (<round dir>/<PROP>/out/<k>/{patch.diff,demo.py,notes.md}) into
seeded/<PROP>-<next number>/ ; prints the new ids.   usage: seedcollect.py /tmp/seed4 [PROP ...]"""
import glob
import os
import re
import shutil
import sys

here = os.path.dirname(os.path.dirname(os.path.abspath(__file__)))
rnd = sys.argv[1]
props = sys.argv[2:] or sorted(os.path.basename(p) for p in glob.glob(rnd + '/C??'))
new = []
for prop in props:
    for k in sorted(glob.glob('%s/%s/out/*' % (rnd, prop))):
        if not all(os.path.exists(os.path.join(k, f)) for f in ('patch.diff', 'demo.py')):
            continue
        marker = os.path.join(k, '.collected')
        if os.path.exists(marker):
            continue
        nums = [int(re.search(r'-(\d+)$', d).group(1)) for d in glob.glob('%s/seeded/%s-*' % (here, prop))]
        sid = '%s-%d' % (prop, max(nums + [0]) + 1)
        dst = os.path.join(here, 'seeded', sid)
        os.makedirs(dst)
        for f in ('patch.diff', 'demo.py', 'notes.md'):
            if os.path.exists(os.path.join(k, f)):
                shutil.copy(os.path.join(k, f), dst)
        # the demo's default ZT_DIR pointed at the agent's scratch directory
        open(marker, 'w').write(sid)
        new.append(sid)
print(' '.join(new))
