#!/usr/bin/env python3-vt
"""validate MANIFEST.json and every evidence file against the schemas"""
import glob
import json
import sys

import jsonschema

ok = True
jsonschema.validate(json.load(open('/verif/MANIFEST.json')), json.load(open('/root/.vp/MANIFEST.schema.json')))
es = json.load(open('/root/.vp/EVIDENCE.schema.json'))
for f in sorted(glob.glob('/verif/evidence/*.json')):
    try:
        jsonschema.validate(json.load(open(f)), es)
    except Exception as e:  # noqa: BLE001
        ok = False
        print('INVALID', f, str(e)[:300])
m = json.load(open('/verif/MANIFEST.json'))
ids = [c['property_id'] for c in m['checks']] + [c['property_id'] for c in m.get('not_applicable', [])]
assert sorted(ids) == ['C%02d' % i for i in range(1, 21)], ids
print('valid' if ok else 'INVALID')
sys.exit(0 if ok else 1)
