#!/usr/bin/env python3
"""Run one check against one seeded change without touching RESULTS.json / meta.json.
usage: trymut.py <seed id | patch file> <CHECK> [tier]   (environment such as ZTV_ONLY_PART, VERIF_SEED is passed on)"""
import os
import sys

sys.path.insert(0, os.path.dirname(os.path.abspath(__file__)))
import seedmatrix  # noqa: E402

sid, chk = sys.argv[1], sys.argv[2]
tier = sys.argv[3] if len(sys.argv) > 3 else 'quick'
patch = sid if os.path.isfile(sid) else os.path.join(seedmatrix.HERE, 'seeded', sid, 'patch.diff')
print(sid, chk, seedmatrix.run_one(sid, patch, chk, tier))
