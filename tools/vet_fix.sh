#!/bin/sh
# run the pinned baseline (42 tests) and the complete upstream suite (90 tests) against /repo's working tree
cd /repo && /venv/bin/python -m pytest -q -p no:cacheprovider --timeout=900 --continue-on-collection-errors 2>&1 | tail -2
/verif/tools/upstream_tests.sh 2>&1 | grep "Ran \|Total"
