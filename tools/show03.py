#!/venv/bin/python
import json, sys
sys.path.insert(0, '/verif')
from ztv import boot
boot.bootstrap()
from ztv import drive
from ztv.props import common
rep = json.load(open(sys.argv[1])); case = rep['case']
spec = common.with_prefix(case['spec'])
run = drive.run_inproc(spec, common.args_of(dict(case['opts'], verbose=case.get('verbose',0))) + sys.argv[2:], disk=True)
print(run.out[-2500:]); print(run.exc_tb)
