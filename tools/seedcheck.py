#!/venv/bin/python
"""Confirm a candidate seeded change and run checks against it, in a scratch worktree of /repo's HEAD.

usage: seedcheck.py <dir with patch.diff + demo.py|demo.sh> <check ids, comma separated> [tier] [--keep]

Steps (all in /tmp/sw/<name>, removed afterwards): demo on the clean tree (expect exit 0), apply the patch, demo again
(expect exit 1), pinned pytest baseline and the complete upstream suite (expect the clean tree's results), then each
named check with ZTV_REPO_SRC pointing at the patched tree and ZTV_OUT pointing into the scratch dir (so /verif's
evidence and replays are untouched).  Prints one JSON line with the results.
"""
import json
import os
import re
import shutil
import subprocess
import sys
import time

ZT = '''import os, sys
HERE = os.path.dirname(os.path.abspath(__file__))
SRC = os.path.join(HERE, 'repo', 'src')
def bootstrap():
    if SRC in sys.path:
        sys.path.remove(SRC)
    sys.path.insert(0, SRC)
    import zope
    want = [os.path.join(SRC, 'zope')]
    for p in list(sys.path):
        d = os.path.join(p, 'zope')
        if p and os.path.isdir(d) and d not in want:
            want.append(d)
    try:
        zope.__path__[:] = want
    except TypeError:
        zope.__path__ = want
bootstrap()
if __name__ == '__main__':
    import zope.testrunner
    zope.testrunner.run()
'''


def sh(cmd, cwd=None, env=None, timeout=3600):
    e = dict(os.environ)
    e.update(env or {})
    try:
        p = subprocess.run(cmd, shell=isinstance(cmd, str), cwd=cwd, env=e, stdout=subprocess.PIPE,
                           stderr=subprocess.STDOUT, timeout=timeout)
        return p.returncode, p.stdout.decode('utf-8', 'replace')
    except subprocess.TimeoutExpired as ex:
        return 124, (ex.stdout or b'').decode('utf-8', 'replace') + '\nTIMEOUT'


def pinned(d):
    rc, out = sh(['/venv/bin/python', '-c',
                  "import sys; sys.path.insert(0, %r); import zt, pytest; sys.exit(pytest.main(['-q','-p',"
                  "'no:cacheprovider','--timeout=900','--continue-on-collection-errors']))" % d], cwd=d + '/repo')
    lines = sorted(ln for ln in out.splitlines() if ln.startswith(('FAILED', 'ERROR')))
    tail = [ln for ln in out.splitlines() if re.search(r'\d+ passed', ln)]
    return (tail[-1] if tail else out[-200:]), lines


def upstream(d):
    rc, out = sh(['/venv/bin/python', d + '/zt.py', '--test-path', d + '/repo/src', '-s', 'zope.testrunner'], cwd='/tmp')
    m = re.findall(r'Ran \d+ tests with \d+ failures, \d+ errors and \d+ skipped', out)
    return m[-1] if m else out[-300:]


def main():
    args = [a for a in sys.argv[1:] if not a.startswith('--')]
    keep = '--keep' in sys.argv
    skip_suites = '--skip-suites' in sys.argv
    src = os.path.abspath(args[0])
    checks = [c for c in args[1].split(',') if c]
    tier = args[2] if len(args) > 2 else 'quick'
    name = re.sub(r'[^A-Za-z0-9]+', '_', src.strip('/'))[-40:] + '_%d' % os.getpid()
    d = '/tmp/sw/' + name
    os.makedirs('/tmp/sw', exist_ok=True)
    res = {'src': src, 'checks': {}}
    rc, out = sh(['git', '-C', '/repo', 'worktree', 'add', '-q', '--detach', d + '/repo', 'HEAD'])
    if rc:
        print(json.dumps({'src': src, 'error': 'worktree: ' + out}))
        return 2
    try:
        with open(d + '/zt.py', 'w') as f:
            f.write(ZT)
        demo = src + '/demo.py' if os.path.exists(src + '/demo.py') else src + '/demo.sh'
        democmd = ['/venv/bin/python', demo] if demo.endswith('.py') else ['sh', demo]
        env = {'ZT_DIR': d, 'PYTHONDONTWRITEBYTECODE': '1'}
        rc0, out0 = sh(democmd, cwd='/tmp', env=env, timeout=900)
        res['demo_clean'] = rc0
        if not skip_suites:
            res['pinned_clean'], ids0 = pinned(d)
        rc, out = sh(['git', 'apply', src + '/patch.diff'], cwd=d + '/repo')
        if rc:
            rc, out = sh(['git', 'apply', '-3', src + '/patch.diff'], cwd=d + '/repo')
        if rc:
            rc, out = sh('patch -p1 --fuzz=3 < %s/patch.diff' % src, cwd=d + '/repo')
        res['applies'] = rc == 0
        if rc:
            res['apply_error'] = out[-400:]
            print(json.dumps(res))
            return 1
        rc1, out1 = sh(democmd, cwd='/tmp', env=env, timeout=900)
        res['demo_patched'] = rc1
        res['demo_patched_tail'] = out1[-300:]
        if not skip_suites:
            res['pinned_patched'], ids1 = pinned(d)
            res['pinned_same'] = ids0 == ids1 and res['pinned_clean'].split(' in ')[0] == res['pinned_patched'].split(' in ')[0]
            res['upstream_patched'] = upstream(d)
        for c in checks:
            t0 = time.time()
            rc, out = sh(['/verif/check', c, tier], cwd='/verif',
                         env={'ZTV_REPO_SRC': d + '/repo/src', 'ZTV_OUT': d + '/out'}, timeout=7200)
            viol = [ln for ln in out.splitlines() if ln.startswith('VIOLATION')]
            msgs = [ln.strip()[:300] for ln in out.splitlines() if ln.startswith('  ') and '/' in ln][:6]
            res['checks'][c] = {'exit': rc, 'violations': len(viol), 'msgs': msgs, 'wall': round(time.time() - t0),
                                'tail': out[-300:] if rc not in (0, 1) else ''}
    finally:
        if not keep:
            sh(['git', '-C', '/repo', 'worktree', 'remove', '--force', d + '/repo'])
            shutil.rmtree(d, ignore_errors=True)
    print(json.dumps(res))
    return 0


if __name__ == '__main__':
    sys.exit(main())
