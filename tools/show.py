#!/venv/bin/python
"""debug helper: run one replay file (or case JSON) and print the runner output and the trace"""
import json
import sys
sys.path.insert(0, '/verif')
from ztv import boot
boot.bootstrap()
from ztv import drive
from ztv.props import common

rep = json.load(open(sys.argv[1]))
case = rep.get('case', rep)
spec = common.with_prefix(case['spec'])
disk = '--disk' in sys.argv
run = drive.run_inproc(spec, common.args_of(case.get('opts') or {}), disk=disk)
print(run.out)
print('--- exc:', run.exc_tb)
print('--- failed:', run.failed)
if '--trace' in sys.argv:
    for e in run.trace:
        print(e)
