"""Parser for the runner's plain text output (what the runner *claims*)."""
import re

RE_RUNNING = re.compile(r'^Running (\S*) tests:$')
RE_LISTING = re.compile(r'^Listing (\S*) tests:$')
RE_SETUP = re.compile(r'^  Set up (\S+) in (?:\d+ minutes )?[\d.]+ seconds\.$')
RE_SETUP_START = re.compile(r'^  Set up (\S+) ')
RE_TEARDOWN = re.compile(r'^  Tear down (\S+) (in (?:\d+ minutes )?[\d.]+ seconds\.|\.\.\. not supported)$')
RE_TEARDOWN_START = re.compile(r'^  Tear down (\S+) ')
# (the colourised formatter writes ', N skipped' where the plain one writes ' and N skipped')
RE_RAN = re.compile(r'^  Ran (\d+) tests with (\d+) failures, (\d+) errors(?: and|,) (\d+) skipped in ')
RE_TOTAL = re.compile(r'^Total: (\d+) tests, (\d+) failures, (\d+) errors(?: and|,) (\d+) skipped in ')
RE_ANSI = re.compile(r'\x1b\[[0-9;]*m')
RE_SEED = re.compile(r'^Tests were shuffled using seed number (-?\d+)\.$')
RE_ERR_IN = re.compile(r'^(Error|Failure) in test (.*)$')
RE_ITER = re.compile(r'^Iteration (\d+)$')


class Block:
    """everything between one 'Running <layer> tests:' header and the next"""

    def __init__(self, layer, start):
        self.layer = layer
        self.start = start
        self.lines = []
        self.setups = []      # layer names in order
        self.teardowns = []   # (layer name, 'ok'|'nie'|'open')
        self.ran = []         # (n, f, e, s) per iteration
        self.subprocess = False


class Parsed:
    def __init__(self):
        self.blocks = []
        self.pre = []
        self.total = None
        self.totals = []
        self.errors_list = None
        self.failures_list = None
        self.import_problems = None
        self.seeds = []
        self.listing = []      # (layer, [names])
        self.reports = []      # (kind, name, line index)
        self.leftover = []     # teardowns after 'Tearing down left over layers:'
        self.lines = []
        self.cant_communicate = 0
        self.thread_reports = []   # (test, threads line)


_GLUE = re.compile(r'(Tk\d+q)(?=(?:Running \S* tests:|  Ran \d+ tests|Total: \d+ tests|  Set up \S+ |  Tear down \S+ |'
                   r'Tearing down left over layers:|Iteration \d+$|  Running:$|Listing \S* tests:))', re.M)


_GLUE_TOTAL = re.compile(r'(?<=[^\n])(Total: \d+ tests, \d+ failures, \d+ errors(?: and|,) \d+ skipped in |'
                         r'Running \S+ tests:$|  Ran \d+ tests with \d+ failures, \d+ errors(?: and|,) \d+ skipped in )',
                         re.M)


def parse(text, progress=False):
    """progress=True: the run used --progress, whose carriage returns separate what a terminal shows as lines"""
    p = Parsed()
    if '\x1b[' in text:
        text = RE_ANSI.sub('', text)     # --color
    if progress:
        text = text.replace('\r', '\n')
    # a test may leave an unterminated line (always ending in a 'Tk<n>q' token) in front of a runner line
    text = _GLUE.sub(lambda m: m.group(1) + '\n', text)
    # a child that died in the middle of a line leaves it unterminated in front of the parent's next line
    text = _GLUE_TOTAL.sub(r'\n\1', text)
    lines = text.split('\n')
    p.lines = lines
    cur = None
    section = None
    i = 0
    n = len(lines)
    while i < n:
        line = lines[i]
        m = RE_RUNNING.match(line)
        if m:
            cur = Block(m.group(1), i)
            p.blocks.append(cur)
            section = None
            i += 1
            continue
        m = RE_LISTING.match(line)
        if m:
            names = []
            p.listing.append((m.group(1), names))
            section = ('listing', names)
            cur = None
            i += 1
            continue
        if line == 'Tearing down left over layers:':
            cur = None
            section = 'leftover'
            i += 1
            continue
        if line == 'Tests with errors:':
            p.errors_list = []
            section = ('names', p.errors_list)
            i += 1
            continue
        if line == 'Tests with failures:':
            p.failures_list = []
            section = ('names', p.failures_list)
            i += 1
            continue
        if line == 'Test-modules with import problems:':
            p.import_problems = []
            section = ('mods', p.import_problems)
            i += 1
            continue
        m = RE_TOTAL.match(line)
        if m:
            p.total = tuple(int(x) for x in m.groups())
            p.totals.append(p.total)
            section = None
            i += 1
            continue
        m = RE_SEED.match(line)
        if m:
            p.seeds.append(int(m.group(1)))
            i += 1
            continue
        if 'Could not communicate with subprocess!' in line:
            p.cant_communicate += 1
        if line.endswith('The following test left new threads behind:') and i + 2 < n:
            p.thread_reports.append((lines[i + 1], lines[i + 2]))
        if isinstance(section, tuple):
            kind, acc = section
            if kind == 'names':
                if line.startswith('   '):
                    acc.append(line[3:])
                    i += 1
                    continue
                if line == '':
                    # a blank line ends the list
                    section = None
                    i += 1
                    continue
                section = None
            elif kind == 'mods':
                if line.startswith('  '):
                    acc.append(line[2:])
                    i += 1
                    continue
                section = None
            elif kind == 'listing':
                if line.startswith('  '):
                    acc.append(line[2:])
                    i += 1
                    continue
                section = None
        m = RE_ERR_IN.match(line)
        if m:
            p.reports.append((m.group(1), m.group(2), i))
        tgt = cur
        if tgt is not None:
            tgt.lines.append(line)
            if line == '  Running in a subprocess.':
                tgt.subprocess = True
            m = RE_SETUP_START.match(line)
            if m:
                tgt.setups.append(m.group(1))
            m = RE_TEARDOWN_START.match(line)
            if m:
                m2 = RE_TEARDOWN.match(line)
                st = 'open' if not m2 else ('nie' if 'not supported' in m2.group(2) else 'ok')
                tgt.teardowns.append((m.group(1), st))
            m = RE_RAN.match(line)
            if m:
                tgt.ran.append(tuple(int(x) for x in m.groups()))
        elif section == 'leftover':
            m = RE_TEARDOWN_START.match(line)
            if m:
                m2 = RE_TEARDOWN.match(line)
                st = 'open' if not m2 else ('nie' if 'not supported' in m2.group(2) else 'ok')
                p.leftover.append((m.group(1), st))
        else:
            p.pre.append(line)
        i += 1
    return p
