"""Reference semantics, written from the property statements and the documentation (not from runner.py)."""
import re
import sys

UNIT_NAME = 'zope.testrunner.layer.UnitTests'
UNIT = -1

# outcome kind -> result events a single test produces: (failures, errors, skips, unexpected successes)
# 'subtests' is computed from the sub list.  Validated against the stdlib unittest.TestResult at start-up.
EVENTS = {
    'pass': (0, 0, 0, 0),
    'fail': (1, 0, 0, 0),
    'error': (0, 1, 0, 0),
    'error_setup': (0, 1, 0, 0),
    'error_teardown': (0, 1, 0, 0),
    'error_both': (0, 2, 0, 0),
    'fail_teardown': (1, 1, 0, 0),
    'cleanup_error': (0, 1, 0, 0),
    'skip_deco': (0, 0, 1, 0),
    'skip_setup': (0, 0, 1, 0),
    'skip_body': (0, 0, 1, 0),
    'xfail': (0, 0, 0, 0),
    'uxsuccess': (0, 0, 0, 1),
    'sysexit': (0, 1, 0, 0),
    'error_sig': (0, 1, 0, 0),
    'cleanup_noncallable': (0, 1, 0, 0),
}


def events_of(t):
    k = t['k']
    if k == 'subtests':
        f = sum(1 for s in t.get('sub') or () if s[0] == 'fail')
        e = sum(1 for s in t.get('sub') or () if s[0] == 'error')
        sk = sum(1 for s in t.get('sub') or () if s[0] == 'skip')    # skipTest() inside a subTest block
        return (f, e, sk, 0)
    return EVENTS[k]


def is_bad(t):
    f, e, s, u = events_of(t)
    return bool(f or e or u)


def n_events(t):
    f, e, s, u = events_of(t)
    return f + e + u


def starts(t, skip_class=False):
    """does any code of the test run (setUp reached)?"""
    return t['k'] != 'skip_deco' and not skip_class


def layer_fullname(spec, ref):
    if ref == UNIT:
        return UNIT_NAME
    if isinstance(ref, str):
        return ref
    L = spec['layers'][ref]
    return '%s%slayers.%s' % (L.get('modp', ''), spec['mp'], L['name'])


def layer_index(spec, fullname):
    if fullname == UNIT_NAME:
        return UNIT
    for i, L in enumerate(spec['layers']):
        if layer_fullname(spec, i) == fullname:
            return i
    return None


def closure(spec, i):
    """layer i and its transitive bases (indices)"""
    if i == UNIT or i is None:
        return set()
    out = set()
    todo = [i]
    while todo:
        j = todo.pop()
        if j in out:
            continue
        out.add(j)
        todo.extend(spec['layers'][j]['bases'])
    return out


def derived_of(spec, i):
    return {j for j in range(len(spec['layers'])) if j != i and i in closure(spec, j)}


def effective_hooks(spec, kinds=None):
    """per layer index: the hooks the runner will find via hasattr().

    Class layers inherit hooks from their (class) bases; instance layers only have their own."""
    if kinds is None:
        from . import runtime
        kinds = runtime.effective_kind(spec)
    res = []
    for i, L in enumerate(spec['layers']):
        hooks = set(L['hooks'])
        if kinds[i] == 'class':
            for j in closure(spec, i):
                if j != i:
                    hooks |= set(spec['layers'][j]['hooks'])
        res.append(hooks)
    return res


def test_id(modname, cls, meth):
    return '%s.%s.%s' % (modname, cls, meth)


def test_str(modname, cls, t):
    if 'str' in t:
        return t['str']
    if sys.version_info >= (3, 11):
        return '%s (%s.%s.%s)' % (t['n'], modname, cls, t['n'])
    return '%s (%s.%s)' % (t['n'], modname, cls)


def resolve(spec):
    """all tests in discovery order with their nearest layer / level declaration"""
    from . import runtime
    out = []

    def walk(node, modname, layer, level):
        if 'layer' in node:
            layer = node['layer']
        if 'level' in node:
            level = node['level']
        if node['t'] == 's':
            for ch in node['ch']:
                walk(ch, modname, layer, level)
        elif node['t'] == 'c':
            for t in node['tests']:
                tl = t.get('ilayer', layer)
                tv = t.get('ilevel', level)
                out.append({
                    'id': test_id(modname, node['name'], t['n']),
                    'str': test_str(modname, node['name'], t),
                    'module': modname, 'cls': node['name'], 't': t,
                    'layer': tl, 'layer_name': layer_fullname(spec, tl), 'level': tv,
                    'skip_class': bool(node.get('skip_class')),
                })
        elif node['t'] == 'd':
            out.append({
                'id': node.get('dname', '%s.%s' % (modname, node['name'])),
                'str': None, 'module': modname, 'cls': None, 't': dict(node, k=node.get('k', 'pass'), n=node['name']),
                'layer': layer, 'layer_name': layer_fullname(spec, layer), 'level': level,
                'skip_class': False, 'doctest': True,
            })

    for m in spec['modules']:
        if m.get('fail') or m.get('style') in ('bad_suite', 'raising_suite', 'empty_suite'):
            continue
        walk(m['tree'], runtime.test_modname(spec, m), UNIT, 1)
    return out


# ------------------------------------------------------------------------------------------
# C08: the three-line algebraic spec of the filter


def accepts(patterns, name):
    pos = [p for p in patterns if not p.startswith('!')]
    neg = [p[1:] for p in patterns if p.startswith('!')]
    if any(re.search(p, name) for p in neg):
        return False
    if not pos:
        return bool(neg) and True
    return any(re.search(p, name) for p in pos)


# ------------------------------------------------------------------------------------------
# C09: level eligibility


def eligible(level, at_level=1, all_levels=False, only_level=None):
    if only_level is not None:
        return level == only_level
    if all_levels or at_level <= 0:
        return True
    return level <= at_level


def select(spec, test_pats=None, module_pats=None, layer_pats=None, at_level=1, all_levels=False,
           only_level=None, unit=False, non_unit=False, packages=None):
    """the tests a run with these options must execute: dict layer_name -> [test records] (discovery order)"""
    res = {}
    if unit and non_unit:
        unit = non_unit = False
    for rec in resolve(spec):
        if packages:
            # --package: only modules inside one of the named packages are searched
            dotted = ['.'.join(spec['mp'] + part for part in p.split('.')) for p in packages]
            if not any(rec['module'].startswith(d + '.') for d in dotted):
                continue
        if module_pats and not accepts(module_pats, rec['module']):
            continue
        if not eligible(rec['level'], at_level, all_levels, only_level):
            continue
        if test_pats and rec['str'] is not None and not accepts(test_pats, rec['str']):
            continue
        ln = rec['layer_name']
        if unit and ln != UNIT_NAME:
            continue
        if non_unit and ln == UNIT_NAME:
            continue
        if layer_pats and not unit and not accepts(layer_pats, ln):
            continue
        res.setdefault(ln, []).append(rec)
    return res
