"""Materialise a generated *world* (layers, modules, suites, test cases) inside a runner process.

The same code runs in the harness worker (in-process runs), in CLI runner processes and in the layer
subprocesses the runner re-execs; every hook and test phase appends a pid-tagged event to the trace,
which is the ground truth all oracles use (never the runner's own bookkeeping).

World spec (plain JSON)::

    {"mp": "w1a2b",                      # unique module prefix of this case
     "layers": [{"name": "LA", "kind": "class"|"inst", "bases": [j<i...],
                 "hooks": ["setUp", ...],            # hooks defined *on* this layer
                 "faults": {"setUp": "ValueError", "tearDown": "NIE"},
                 "acts": {"setUp": [action...]}}],
     "modules": [{"name": "a", "fail": null|"ImportError", "acts": [...], "tree": node}]}
    node := {"t": "s", "layer": i|-1, "level": n, "ch": [node...]}        # TestSuite
          | {"t": "c", "name": "TC0", "layer": .., "level": .., "tests": [test...]}
          | {"t": "d", "name": "doc0", "examples": [[src, want]...], ...} # doctest case
    test := {"n": "test_a", "k": kind, "exc": "ValueError", "msg": "...", "str": custom __str__,
             "ilayer": i, "ilevel": n, "sub": [["pass"|"fail"|"error", params]...],
             "acts": {"setUp": [...], "body": [...], "tearDown": [...]}}
"""
import json
import os
import signal
import sys
import threading
import time
import types
import unittest

UNIT = -1  # explicit reference to zope.testrunner.layer.UnitTests

KINDS = ('pass', 'fail', 'error', 'error_setup', 'error_teardown', 'error_both', 'fail_teardown',
         'cleanup_error', 'skip_deco', 'skip_setup', 'skip_body', 'xfail', 'uxsuccess', 'subtests',
         'sysexit', 'error_sig', 'cleanup_noncallable')

# --------------------------------------------------------------------------------------------
# trace


class Tracer:
    def __init__(self, path=None):
        self.path = path
        self.events = []
        self.fd = None
        if path:
            self.fd = os.open(path, os.O_WRONLY | os.O_APPEND | os.O_CREAT, 0o644)

    def emit(self, ev, **kw):
        kw['ev'] = ev
        kw['pid'] = os.getpid()
        kw['t'] = time.monotonic_ns()    # CLOCK_MONOTONIC: comparable between the processes of one run
        if self.fd is not None:
            os.write(self.fd, (json.dumps(kw) + '\n').encode('utf-8', 'backslashreplace'))
        else:
            self.events.append(kw)

    def close(self):
        if self.fd is not None:
            os.close(self.fd)
            self.fd = None


TRACER = Tracer()
_left_open = []
ORIG_STREAMS = [None, None]   # set by the in-process driver: the objects the runner must restore
CONTROL_DIR = None            # barrier files live here (scheduled driver)
_SPEC = None
_WORLD = None


def emit(ev, **kw):
    TRACER.emit(ev, **kw)


def read_trace(path):
    out = []
    try:
        with open(path, 'rb') as f:
            for line in f:
                line = line.strip()
                if line:
                    try:
                        out.append(json.loads(line))
                    except ValueError:
                        out.append({'ev': 'garbled', 'raw': line.decode('latin1')})
    except FileNotFoundError:
        pass
    return out


# --------------------------------------------------------------------------------------------
# exceptions used as faults


class BadStr(Exception):
    """exception whose __str__ raises"""

    def __str__(self):
        raise RuntimeError('BadStr.__str__')


class BadRepr(Exception):
    def __repr__(self):
        raise RuntimeError('BadRepr.__repr__')


class CustomError(Exception):
    pass


class UnhashableError(Exception):
    """exception that defines __eq__ without __hash__ (legal; cannot be put into a set)"""
    __hash__ = None

    def __eq__(self, other):
        return self is other


class NonStrArgs(Exception):
    def __init__(self):
        Exception.__init__(self, 42, b'\xff\x00', None)


def make_exc(name, msg=None):
    m = 'boom' if msg is None else msg
    if name == 'NIE':
        return NotImplementedError()
    if name == 'BadStr':
        return BadStr(m)
    if name == 'BadRepr':
        return BadRepr(m)
    if name == 'CustomError':
        return CustomError(m)
    if name == 'NonStrArgs':
        return NonStrArgs()
    if name == 'Chained':
        try:
            try:
                raise KeyError('inner ' + m)
            except KeyError as e:
                raise RuntimeError('outer ' + m) from e
        except RuntimeError as e2:
            return e2
    if name == 'Context':
        try:
            try:
                raise KeyError('ctx ' + m)
            except KeyError:
                raise ValueError('during handling ' + m)
        except ValueError as e2:
            return e2
    if name == 'CyclicCause':
        # the "raise z from e ... raise e from z" re-raise idiom: e.__cause__ is z and z.__cause__ is e
        try:
            try:
                raise KeyError('first ' + m)
            except KeyError as e:
                try:
                    raise RuntimeError('second ' + m) from e
                except RuntimeError as z:
                    raise e from z
        except KeyError as e2:
            return e2
    if name == 'CyclicContext':
        a, b = ValueError('ctx-a ' + m), TypeError('ctx-b ' + m)
        a.__context__, b.__context__ = b, a
        return a
    if name == 'SelfCause':
        a = ValueError('self-cause ' + m)
        a.__cause__ = a
        return a
    if name == 'Unhashable':
        return UnhashableError(m)
    if name == 'UnhashableChained':
        try:
            try:
                raise UnhashableError('inner ' + m)
            except UnhashableError as e:
                raise UnhashableError('outer ' + m) from e
        except UnhashableError as e2:
            return e2
    if name == 'CompileError':
        try:
            compile('def broken(:\n    pass\n', '<ztv generated>', 'exec')
        except SyntaxError as e:
            return e
    if name == 'IndentationError':
        try:
            compile('if 1:\nx = 1\n', '<ztv generated>', 'exec')
        except SyntaxError as e:
            return e
    if name == 'ExcGroup' and hasattr(__import__('builtins'), 'ExceptionGroup'):
        return ExceptionGroup('group ' + m, [ValueError('g1'), ExceptionGroup('nested', [KeyError('g2')])])  # noqa: F821
    if name == 'WithNotes':
        e = ValueError(m)
        if hasattr(e, 'add_note'):
            e.add_note('a note\nover two lines')
        return e
    if name == 'LongChain':
        e = ValueError('link 0 ' + m)
        for i in range(1, 40):
            n = RuntimeError('link %d' % i)
            n.__cause__ = e
            e = n
        return e
    if name == 'UnicodeDecodeError':
        return UnicodeDecodeError('utf-8', b'\xff', 0, 1, m)
    if name == 'UnicodeEncodeError':
        return UnicodeEncodeError('ascii', '\xff', 0, 1, m)
    if name == 'OSError':
        return OSError(5, m)
    if name == 'SystemExit':
        return SystemExit(3)
    if name == 'KeyboardInterrupt':
        return KeyboardInterrupt()
    if name == 'AssertionError':
        return AssertionError(m)
    if name == 'SkipTest':
        return unittest.SkipTest(m)
    if name == 'StopIteration':
        return StopIteration(m)
    if name == 'SyntaxError':
        return SyntaxError(m, ('f.py', 1, 1, 'x x'))
    if name == 'ImportError':
        return ImportError(m)
    cls = getattr(__import__('builtins'), name, None)
    if isinstance(cls, type) and issubclass(cls, BaseException):
        return cls(m)
    return RuntimeError('%s: %s' % (name, m))


ERROR_EXCS = ('ValueError', 'KeyError', 'CustomError', 'BadStr', 'Chained', 'Context', 'OSError',
              'UnicodeDecodeError', 'UnicodeEncodeError', 'NonStrArgs', 'RuntimeError', 'TypeError',
              'ZeroDivisionError', 'StopIteration', 'SyntaxError', 'ImportError', 'AttributeError',
              'NotImplementedError', 'BadRepr', 'LookupError')
# unusual but legal exception objects: cyclic / self-referential / long chains, unhashable exceptions, real
# compile errors (their traceback has a 'File' line without ', in <name>'), exception groups, notes
ODD_EXCS = ('CyclicCause', 'CyclicContext', 'SelfCause', 'Unhashable', 'UnhashableChained', 'CompileError',
            'IndentationError', 'ExcGroup', 'WithNotes', 'LongChain')


# --------------------------------------------------------------------------------------------
# actions (output, death, barriers, threads)

_threads = {}      # tag -> dict(event=Event, thread=..)
_saved_streams = []
_private_streams = []
_flaky_counts = {}


def _decode_bytes(s):
    return s.encode('latin1')


def do_actions(acts, where):
    for act in acts or ():
        kind = act[0]
        if kind == 'out':
            _, stream, text = act
            if stream == 'o':
                sys.stdout.write(text)
            elif stream == 'e':
                sys.stderr.write(text)
            elif stream == 'p':
                print(text)
            elif stream == 'ob':
                sys.stdout.flush()
                sys.stdout.buffer.write(_decode_bytes(text))
                sys.stdout.buffer.flush()
            elif stream == 'eb':
                sys.stderr.flush()
                sys.stderr.buffer.write(_decode_bytes(text))
                sys.stderr.buffer.flush()
            elif stream == 'fd1':
                sys.stdout.flush()
                os.write(1, _decode_bytes(text))
            elif stream == 'fd2':
                sys.stderr.flush()
                os.write(2, _decode_bytes(text))
            elif stream == 'oe':   # sys.__stderr__ is what a child's real stderr is
                sys.__stderr__.write(text)
                sys.__stderr__.flush()
        elif kind == 'die':
            emit('die', how=act[1], where=where)
            how = act[1]
            try:
                sys.stdout.flush()
            except Exception:  # noqa: BLE001
                pass
            if how == 'exit0':
                os._exit(0)
            elif how == 'exit3':
                os._exit(3)
            elif how == 'kill':
                os.kill(os.getpid(), signal.SIGKILL)
            elif how == 'segv':
                os.kill(os.getpid(), signal.SIGSEGV)
            elif how == 'kbdint':
                raise KeyboardInterrupt()       # (ends the process the way Ctrl-C / SIGINT does)
            elif how in ('sysexit0', 'sysexit3'):
                raise SystemExit(int(how[-1]))
            time.sleep(30)
        elif kind == 'die_in_child':
            # only dies when this process is a layer subprocess
            if in_child():
                do_actions([['die', act[1]]], where)
        elif kind == 'in_child':
            # ['in_child', action] or ['in_child', action, layer-name suffix]: only inside a layer subprocess
            if in_child() and (len(act) < 3 or child_layer().endswith(act[2])):
                do_actions([act[1]], where)
        elif kind == 'noise':
            # ['noise', stream, unit, count]: the unit written count times to a *raw* stream of this process
            # (fd 1 / fd 2 / sys.__stderr__), bypassing whatever the runner installed as sys.stdout / sys.stderr
            _, stream, unit, count = act
            # does it reach the pipe a child's report travels on?  (sys.stderr does until the runner redirects it)
            chan = stream in ('fd2', 'oe') or (stream == 'e' and (isinstance(sys.stderr, CutStderr) or
                                                                   sys.stderr is sys.__stderr__))
            emit('noise', stream=stream, unit=unit, count=count, where=where, chan=bool(chan and in_child()))
            data = _decode_bytes(unit) * count
            try:
                sys.stdout.flush()
            except Exception:  # noqa: BLE001
                pass
            if stream == 'fd1':
                _write_all(1, data)
            elif stream == 'fd2':
                _write_all(2, data)
            elif stream == 'oe':
                sys.__stderr__.write(data.decode('latin1'))
                sys.__stderr__.flush()
            elif stream == 'o':
                sys.stdout.write(data.decode('latin1'))
            elif stream == 'e':
                sys.stderr.write(data.decode('latin1'))
        elif kind == 'atexit_noise':
            import atexit
            atexit.register(lambda a=act: do_actions([['noise', a[1], a[2], a[3]]], where + ':atexit'))
        elif kind == 'leave_process':
            # a helper process that outlives the test (and this process): it inherits the real stderr (fd 2), not stdout
            import subprocess
            subprocess.Popen(['sleep', str(act[1])], stdin=subprocess.DEVNULL, stdout=subprocess.DEVNULL)
            emit('leave_process', seconds=act[1], where=where)
        elif kind == 'set_executable':
            emit('set_executable', value=act[1], where=where)
            sys.executable = act[1]
        elif kind == 'barrier':
            barrier(act[1])
        elif kind == 'raise':
            emit('raise', where=where, exc=act[1])
            raise make_exc(act[1], act[2] if len(act) > 2 else None)
        elif kind == 'sleep':
            time.sleep(act[1])
        elif kind == 'thread':
            thread_action(act[1], where)
        elif kind == 'chdir':
            os.chdir(act[1])
        elif kind == 'flaky':
            # ['flaky', n, exc]: raises the n-th time this action is executed in this process (a test that goes wrong in
            # one --repeat iteration only)
            _flaky_counts[where] = _flaky_counts.get(where, 0) + 1
            if _flaky_counts[where] == act[1]:
                emit('raise', where=where, exc=act[2] if len(act) > 2 else 'AssertionError', flaky=True)
                raise make_exc(act[2] if len(act) > 2 else 'AssertionError', 'flaky: fails in execution %d only' % act[1])
        elif kind == 'nested_run':
            # a test that runs the test runner in process on a one-test suite of its own
            from zope.testrunner.runner import Runner

            class _Inner(unittest.TestCase):
                def test_inner(self):
                    pass
            if len(act) > 2 and act[2] == 'hooks':
                # the inner run has a layer with per-test hooks of its own
                class ZtvInnerLayer:
                    @classmethod
                    def testSetUp(cls):
                        emit('L', h='testSetUp', layer='ZtvInnerLayer', ph='enter')

                    @classmethod
                    def testTearDown(cls):
                        emit('L', h='testTearDown', layer='ZtvInnerLayer', ph='enter')
                ZtvInnerLayer.__module__ = 'ztv_inner'
                _Inner.layer = ZtvInnerLayer
            inner = Runner([], [sys.argv[0] if sys.argv else 'inner'] + list(act[1]),
                           found_suites=[unittest.defaultTestLoader.loadTestsFromTestCase(_Inner)])
            inner.run()
            emit('nested_run', failed=bool(inner.failed), where=where)
        elif kind == 'garbage':
            # cyclic garbage left behind by a test; optionally with a member that cannot be printed
            class _Node:
                if act[1] == 'bad_repr':
                    def __repr__(self):
                        raise ValueError('target is gone')
            a, b = _Node(), _Node()
            a.other, b.other = [b], {'back': a}
            del a, b
        elif kind == 'warn_filter':
            # a test (or a module at import time) that changes the warnings filters
            import warnings
            if act[1] == 'simple':
                warnings.simplefilter('ignore', ResourceWarning)
            elif act[1] == 'rebind':
                # a catch_warnings() block that is entered and never left: the module's filter list is another object now
                cw = warnings.catch_warnings()
                cw.__enter__()
                _left_open.append(cw)
                warnings.simplefilter('always', DeprecationWarning)
            else:
                warnings.filterwarnings('error', message='ztv-generated-%s' % where)
        elif kind == 'settrace_cycle':
            # a test that installs a trace function of its own and removes it again
            def _tracer(frame, event, arg):
                return None
            sys.settrace(_tracer)
            sys.settrace(None)
        elif kind == 'write_file':
            # ['write_file', path relative to the world's src directory, content]
            src = os.path.join(os.path.dirname(os.environ['ZTV_SPEC']), 'src')
            p = os.path.join(src, act[1])
            os.makedirs(os.path.dirname(p), exist_ok=True)
            with open(p, 'w') as f:
                f.write(act[2])
            emit('wrote', path=act[1], where=where)
        elif kind == 'perturb_random':
            # a test module (or something it imports) that uses the process-wide random generator at import time,
            # differently in every process
            import random
            random.seed(os.getpid() * 7919 + time.monotonic_ns())
            for _ in range(os.getpid() % 5):
                random.random()
        elif kind == 'swap':
            # what test fixtures do to the std streams: ['swap', 'save'] (setUp: keep the current streams, install
            # private ones), ['swap', 'restore'] (tearDown/cleanup: put the kept ones back), ['swap', 'leak'] (rebind
            # and never put back)
            import io
            if act[1] == 'save':
                _saved_streams.append((sys.stdout, sys.stderr))
                sys.stdout, sys.stderr = io.StringIO(), io.StringIO()
                _private_streams.append((sys.stdout, sys.stderr))
            elif act[1] == 'restore':
                if _saved_streams:
                    sys.stdout, sys.stderr = _saved_streams.pop()
                    _private_streams.pop()
            elif act[1] == 'leak':
                which = act[2] if len(act) > 2 else 'oe'
                if 'o' in which:
                    sys.stdout = io.StringIO()
                if 'e' in which:
                    sys.stderr = io.StringIO()
            emit('swap', how=act[1], where=where)
        elif kind == 'probe_private':
            # are the private streams installed by the innermost ['swap', 'save'] still in place?
            if _private_streams:
                emit('probe_private', where=where, ok=(sys.stdout is _private_streams[-1][0] and
                                                       sys.stderr is _private_streams[-1][1]))
        elif kind == 'probe':
            emit('probe', where=where, so=sys.stdout is ORIG_STREAMS[0], se=sys.stderr is ORIG_STREAMS[1])
        else:
            raise RuntimeError('unknown action %r' % (act,))


def in_child():
    return '--resume-layer' in sys.argv


def child_layer():
    try:
        return sys.argv[sys.argv.index('--resume-layer') + 1]
    except (ValueError, IndexError):
        return ''


def _write_all(fd, data):
    view = memoryview(data)
    while view:
        n = os.write(fd, view[:65536])
        view = view[n:]


class CutStderr:
    """Replacement for ``sys.stderr`` of a layer subprocess, installed while the world is imported (i.e. before the
    runner saves the stream it will write its report to).  It collects what is written through it and passes it on
    when flushed/closed/at exit; it then logs the complete text to the trace and - if the world says so - lets only
    the first k bytes through and ends the process on the spot (a report that is cut short)."""

    def __init__(self, real, cfg):
        self.real = real
        self.cfg = cfg or {}
        self.parts = []
        self.done = False
        self.encoding = getattr(real, 'encoding', 'utf-8')
        self.errors = getattr(real, 'errors', 'backslashreplace')
        import atexit
        atexit.register(self._finish)

    def write(self, s):
        if self.done or sys.stderr is self:
            # still installed as sys.stderr: the writer is arbitrary code, not the runner's report
            self.real.write(s)
            self.real.flush()
            return len(s)
        self.parts.append(s)
        return len(s)

    def writable(self):
        return True

    def isatty(self):
        return False

    def fileno(self):
        return self.real.fileno()

    def flush(self):
        # the runner flushes once, after the last line of its report
        if any(self.parts):
            self._finish()

    def close(self):
        self._finish()

    def _finish(self):
        if self.done:
            return
        self.done = True
        text = ''.join(self.parts)
        data = text.encode(self.encoding or 'utf-8', 'backslashreplace')
        cut = self.cfg.get('cut')
        k = None
        if cut is not None:
            k = resolve_cut(cut, data)
        emit('report', text=data.decode('latin1'), cut=k, how=self.cfg.get('how'))
        try:
            self.real.flush()
        except Exception:  # noqa: BLE001
            pass
        if k is None or k >= len(data):
            _write_all(2, data)
            return
        _write_all(2, data[:k])
        do_actions([['die', self.cfg.get('how', 'exit0')]], 'report')


def resolve_cut(cut, data):
    """cut := ['abs', n] | ['frac', permille] | ['line', i, delta] (delta relative to the END of line i incl. its
    newline; lines counted from 0; i is taken modulo the number of lines)"""
    n = len(data)
    if cut[0] == 'abs':
        k = cut[1]
    elif cut[0] == 'frac':
        k = (n * cut[1]) // 1000
    else:
        ends = [i + 1 for i, b in enumerate(data) if b == 10] or [n]
        k = ends[cut[1] % len(ends)] + cut[2]
    return max(0, min(n, k))


def install_child_faults(spec):
    """called when the world is first imported in a process"""
    if not in_child():
        return
    cfg = spec.get('child_stderr')
    if getattr(sys.stderr, '_ztv_cut', False):
        return
    emit('child', layer=child_layer(), argv=sys.argv[1:4])
    import atexit
    atexit.register(lambda: emit('child_exit', layer=child_layer()))
    if cfg is not None:
        # every child's report is observed; only the named layer's report is cut
        if not child_layer().endswith(cfg.get('layer', '')):
            cfg = {}
        w = CutStderr(sys.stderr, cfg)
        w._ztv_cut = True
        sys.stderr = w


def barrier(name, timeout=120.0):
    """announce arrival, then block until the harness releases ``name``."""
    d = CONTROL_DIR or os.environ.get('ZTV_CONTROL')
    if not d:
        return
    me = os.path.join(d, '%s.arrived.%d' % (name, os.getpid()))
    with open(me, 'w') as f:
        f.write(str(time.monotonic_ns()))
    go = os.path.join(d, '%s.go' % name)
    t0 = time.monotonic()
    while not os.path.exists(go):
        if time.monotonic() - t0 > timeout:
            emit('barrier_timeout', name=name)
            return
        time.sleep(0.005)
    emit('barrier_passed', name=name)


class _FalsyThread(threading.Thread):
    def __len__(self):
        return 0


def thread_action(a, where):
    """C19: a = {"op": "start"|"release", "tag": .., "api": "threading"|"_thread", "name": .., "hold": bool}"""
    op = a['op']
    if op == 'start':
        ev = threading.Event()
        started = threading.Event()
        rec = {'event': ev, 'tag': a['tag'], 'ident': None, 'done': threading.Event()}

        def body():
            rec['ident'] = threading.get_ident()
            if a.get('register'):
                # a raw thread that calls into ``threading`` (logging does) gets a _DummyThread entry there, which
                # Python never removes when the thread ends
                rec['name'] = threading.current_thread().name
            started.set()
            if a.get('hold'):
                t0 = time.monotonic()
                while not ev.wait(0.004) and time.monotonic() - t0 < 60:
                    if rec.get('cmd') == 'register':
                        # only now does the raw thread call into ``threading`` for the first time
                        rec['name'] = threading.current_thread().name
                        rec['cmd'] = None
                        rec['cmd_done'].set()
            rec['done'].set()

        if a.get('api') == '_thread':
            import _thread
            _thread.start_new_thread(body, ())
            started.wait(10)
            rec['thread'] = None
        else:
            kw = {}
            if a.get('name') is not None:
                kw['name'] = a['name']
            # (a Thread subclass may well be false in a boolean context, e.g. a worker with a __len__ of pending jobs)
            cls = _FalsyThread if a.get('falsy') else threading.Thread
            t = cls(target=body, daemon=True, **kw)
            t.start()
            started.wait(10)
            rec['thread'] = t
            rec['name'] = t.name
        _threads[a['tag']] = rec
        if not a.get('hold'):
            _wait_gone(rec)
        emit('thread_start', tag=a['tag'], ident=rec['ident'], name=rec.get('name'), where=where,
             hold=bool(a.get('hold')), api=a.get('api', 'threading'))
    elif op == 'register':
        rec = _threads.get(a['tag'])
        if rec is not None and rec.get('thread') is None and not rec['done'].is_set():
            rec['cmd_done'] = threading.Event()
            rec['cmd'] = 'register'
            if rec['cmd_done'].wait(10):
                emit('thread_registered', tag=a['tag'], name=rec.get('name'), where=where)
    elif op == 'rename':
        rec = _threads.get(a['tag'])
        if rec is not None and rec.get('thread') is not None and not rec['done'].is_set():
            rec['thread'].name = a['name']
            emit('thread_renamed', tag=a['tag'], name=a['name'], where=where)
    elif op == 'release':
        rec = _threads.get(a['tag'])
        if rec is not None:
            rec['event'].set()
            _wait_gone(rec)
            emit('thread_released', tag=a['tag'], where=where)


def _wait_gone(rec):
    rec['done'].wait(10)
    if rec.get('thread') is not None:
        rec['thread'].join(10)
    t0 = time.monotonic()
    while rec['ident'] in sys._current_frames() and time.monotonic() - t0 < 10:
        time.sleep(0.0005)


def release_all_threads():
    for rec in list(_threads.values()):
        rec['event'].set()
    for rec in list(_threads.values()):
        _wait_gone(rec)
    _threads.clear()


# --------------------------------------------------------------------------------------------
# layers


class InstLayer:
    """Instance layer: an object with __name__, __module__, __bases__ and any subset of hooks."""

    def __init__(self, name, module, bases):
        self.__name__ = name
        self.__module__ = module
        self.__bases__ = tuple(bases)

    def __repr__(self):
        return '<InstLayer %s>' % self.__name__


class FalsyInstLayer(InstLayer):
    """An instance layer that is a (still empty) container of the resources it provides: legal, but false in a
    boolean context."""

    def __len__(self):
        return 0

    def __iter__(self):
        return iter(())


def _hook_body(target, hook, lspecs):
    name = target.__name__
    ls = lspecs.get(name) or {}
    extra = {}
    if hook in ('testSetUp', 'testTearDown') and ORIG_STREAMS[0] is not None:
        extra['so'] = sys.stdout is ORIG_STREAMS[0]
        extra['se'] = sys.stderr is ORIG_STREAMS[1]
    emit('L', h=hook, layer=name, ph='enter', **extra)
    do_actions((ls.get('acts') or {}).get(hook), 'L:%s:%s' % (name, hook))
    fault = (ls.get('faults') or {}).get(hook)
    if fault:
        emit('L', h=hook, layer=name, ph='raise', exc=fault)
        raise make_exc(fault, 'layer %s %s' % (name, hook))
    emit('L', h=hook, layer=name, ph='exit')


class _EqHook:
    """a hook given as a callable object with value equality: the hooks of different layers compare equal (they are still
    different hooks of different layers)"""

    def __init__(self, obj, hook, lspecs):
        self.obj, self.hook, self.lspecs = obj, hook, lspecs

    def __call__(self):
        return _hook_body(self.obj, self.hook, self.lspecs)

    def __eq__(self, other):
        return isinstance(other, _EqHook) and other.hook == self.hook

    def __hash__(self):
        return hash(self.hook)


def build_layers(spec, modname):
    """return list of layer objects (index-aligned with spec['layers'])"""
    lspecs = {L['name']: L for L in spec['layers']}
    layers = []
    for L in spec['layers']:
        bases = [layers[j] for j in L['bases']]
        kind = L['kind']
        if kind == 'class' and any(not isinstance(b, type) for b in bases):
            kind = 'inst'
        if kind == 'class':
            # ('modp': the layer *claims* to live in another module - only its dotted name changes, e.g. so that it
            # sorts after the unit-test layer; nothing imports layers by name)
            ns = {'__module__': L.get('modp', '') + modname}
            for h in L['hooks']:
                ns[h] = classmethod(lambda cls, _h=h: _hook_body(cls, _h, lspecs))
            try:
                obj = type(L['name'], tuple(bases) or (object,), ns)
            except TypeError:   # no consistent MRO: fall back to an instance layer
                kind = 'inst'
        if kind == 'inst':
            obj = (FalsyInstLayer if L.get('falsy') else InstLayer)(L['name'], L.get('modp', '') + modname, bases)
            for h in L['hooks']:
                if L.get('eq_hooks'):
                    setattr(obj, h, _EqHook(obj, h, lspecs))
                else:
                    setattr(obj, h, (lambda _o=obj, _h=h: _hook_body(_o, _h, lspecs)))
        layers.append(obj)
    return layers


def effective_kind(spec):
    """per layer: 'class' or 'inst' after the fall-backs of build_layers (pure function of spec)"""
    kinds, objs = [], []
    for L in spec['layers']:
        kind = L['kind']
        if kind == 'class' and any(kinds[j] != 'class' for j in L['bases']):
            kind = 'inst'
        if kind == 'class':
            try:
                obj = type(L['name'], tuple(objs[j] for j in L['bases']) or (object,), {})
            except TypeError:
                kind, obj = 'inst', None
        else:
            obj = None
        kinds.append(kind)
        objs.append(obj)
    return kinds


# --------------------------------------------------------------------------------------------
# tests


def _test_spec(self):
    return self._ztv_tests[self._testMethodName]


def _case_setUp(self):
    t = _test_spec(self)
    emit('T', ph='setUp', id=self.id(), s=_safe_str(self))
    acts = t.get('acts') or {}
    do_actions(acts.get('setUp'), 'T:%s:setUp' % t['n'])
    k = t['k']
    if k == 'cleanup_error':
        def cleanup():
            emit('T', ph='cleanup', id=self.id())
            raise make_exc(t.get('exc', 'ValueError'), t.get('msg'))
        self.addCleanup(cleanup)
    if k == 'cleanup_noncallable':
        self.addCleanup(42)     # TypeError raised by unittest's own frame when the clean-ups run
    if k == 'error_setup':
        raise make_exc(t.get('exc', 'ValueError'), t.get('msg'))
    if k == 'skip_setup':
        raise unittest.SkipTest(t.get('msg', 'skipped in setUp'))


def _case_tearDown(self):
    t = _test_spec(self)
    emit('T', ph='tearDown', id=self.id())
    acts = t.get('acts') or {}
    do_actions(acts.get('tearDown'), 'T:%s:tearDown' % t['n'])
    if t['k'] in ('error_teardown', 'error_both', 'fail_teardown'):
        raise make_exc(t.get('exc2', t.get('exc', 'ValueError')), t.get('msg'))


def _case_run(self, result=None):
    # delimits everything the runner does around one test (incl. tests that never start)
    tid = self.id()     # (the runner may clear the instance dict while the test is being stopped)
    emit('T', ph='run', id=tid)
    try:
        return unittest.TestCase.run(self, result)
    finally:
        emit('T', ph='ran', id=tid)


def _case_debug(self):
    # the runner's post-mortem mode (-D) runs tests through debug() instead of run()
    tid = self.id()
    emit('T', ph='run', id=tid, via='debug')
    try:
        return unittest.TestCase.debug(self)
    finally:
        emit('T', ph='ran', id=tid, via='debug')


def _safe_str(obj):
    try:
        return str(obj)
    except Exception as e:  # noqa: BLE001
        return '<str failed: %r>' % e


def _make_body(t):
    k = t['k']

    def body(self):
        emit('T', ph='body', id=self.id())
        acts = t.get('acts') or {}
        do_actions(acts.get('body'), 'T:%s:body' % t['n'])
        if k in ('fail', 'fail_teardown', 'xfail'):
            self.fail(t.get('msg', 'failed on purpose'))
        elif k in ('error', 'error_both'):
            raise make_exc(t.get('exc', 'ValueError'), t.get('msg'))
        elif k == 'sysexit':
            raise SystemExit(3)
        elif k == 'skip_body':
            self.skipTest(t.get('msg', 'skipped in body'))
        elif k == 'subtests':
            for i, sub in enumerate(t.get('sub') or ()):
                with self.subTest(i=i, **(sub[1] if len(sub) > 1 and sub[1] else {})):
                    do_actions((sub[2] if len(sub) > 2 else None), 'T:%s:sub%d' % (t['n'], i))
                    if sub[0] == 'fail':
                        emit('T', ph='subfail', id=self.id(), s=_safe_str(self._subtest), kind='fail',
                             sid=self._subtest.id())
                        self.fail(t.get('msg', 'subtest failed'))
                    elif sub[0] == 'error':
                        emit('T', ph='subfail', id=self.id(), s=_safe_str(self._subtest), kind='error',
                             sid=self._subtest.id())
                        raise make_exc(t.get('exc', 'ValueError'), t.get('msg'))
                    elif sub[0] == 'skip':
                        self.skipTest('sub skipped')
        do_actions(acts.get('body_end'), 'T:%s:body_end' % t['n'])

    if k == 'error_sig':
        # a test method with a wrong signature: the TypeError is raised by the call itself, inside unittest/case.py
        # (the traceback holds no frame of the test module)
        def body():
            pass
    body.__name__ = t['n']
    if 'doc' in t:
        body.__doc__ = t['doc']
    if k == 'skip_deco':
        body = unittest.skip(t.get('msg', 'skipped by decorator'))(body)
    elif k in ('xfail', 'uxsuccess'):
        body = unittest.expectedFailure(body)
    return body


def build_case(node, modname, layers):
    tests = {t['n']: t for t in node['tests']}
    ns = {'__module__': modname, '_ztv_tests': tests, 'setUp': _case_setUp, 'tearDown': _case_tearDown,
          'run': _case_run, 'debug': _case_debug}
    for t in node['tests']:
        ns[t['n']] = _make_body(t)
    if any('str' in t for t in node['tests']):
        def __str__(self):
            t = _test_spec(self)
            if 'str' in t:
                return t['str']
            return unittest.TestCase.__str__(self)
        ns['__str__'] = __str__
    if any('sdesc' in t for t in node['tests']):
        def shortDescription(self):
            return _test_spec(self).get('sdesc')
        ns['shortDescription'] = shortDescription
    if node.get('falsy'):
        # test objects that are false in a boolean context (a TestCase that is also an empty container)
        ns['__bool__'] = lambda self: False
    if any('count' in t for t in node['tests']):
        # a test object standing for several checks (or none): legal, the runner adds countTestCases() to its totals
        def countTestCases(self):
            return _test_spec(self).get('count', 1)
        ns['countTestCases'] = countTestCases
    cls = type(node['name'], (unittest.TestCase,), ns)
    cls.__qualname__ = node['name']
    if node.get('skip_class'):
        cls = unittest.skip('class skipped')(cls)
    _decorate(cls, node, layers)
    suite = unittest.TestSuite()
    for t in node['tests']:
        inst = cls(t['n'])
        if 'ilayer' in t:
            inst.layer = _layer_ref(t['ilayer'], layers)
        if 'ilevel' in t:
            inst.level = t['ilevel']
        suite.addTest(inst)
        if t.get('twice'):
            # a second test object of the same class and method (hand-made parametrisation): the two compare equal
            suite.addTest(cls(t['n']))
    if node.get('class_error'):
        def setUpClass(klass, _exc=node['class_error'], _nm=node['name']):
            emit('class_fixture_error', cls=_nm)
            raise make_exc(_exc, 'class fixture of %s failed on purpose' % _nm)
        cls.setUpClass = classmethod(setUpClass)
    if node.get('class_skip'):
        # (only reached when something keeps unittest's class fixtures alive, see _SuiteLike)
        def setUpClass(klass):
            raise unittest.SkipTest('class fixture says no')
        cls.setUpClass = classmethod(setUpClass)
    if node.get('wrap') == 'suitelike':
        wrapped = _SuiteLike(suite, '%s.%s' % (modname, node['name']))
        _decorate(wrapped, node, layers)
        return cls, wrapped
    return cls, suite


class _SuiteLike:
    """a suite-like test object that is not a unittest.TestSuite: the runner treats it as one test and calls it, so
    unittest's own suite machinery (class and module fixtures included) runs inside that one 'test'"""

    def __init__(self, suite, name):
        self._suite = suite
        self._name = name

    def countTestCases(self):
        return self._suite.countTestCases()

    def __call__(self, result):
        return self._suite.run(result)

    run = __call__

    def id(self):
        return self._name

    def __str__(self):
        return 'suite-like %s' % self._name

    def shortDescription(self):
        return None


def _layer_ref(ref, layers):
    if ref == UNIT:
        from zope.testrunner.layer import UnitTests
        return UnitTests
    if isinstance(ref, str):
        return ref     # layer given by dotted name (supported by tests_from_suite)
    return layers[ref]


def _decorate(obj, node, layers):
    if 'layer' in node:
        obj.layer = _layer_ref(node['layer'], layers)
    if 'level' in node:
        obj.level = node['level']


def build_doctest(node, modname, layers):
    import doctest
    src = ''.join('>>> %s\n%s' % (ex[0], (ex[1] + '\n') if ex[1] else '') for ex in node['examples'])
    emit_src = ''
    globs = {'emit': emit, '__name__': modname}
    parser = doctest.DocTestParser()
    name = node.get('dname', '%s.%s' % (modname, node['name']))
    if node.get('file'):
        dt = parser.get_doctest(emit_src + src, globs, node['file'], node['file'], 0)
        case = doctest.DocFileCase(dt, optionflags=node.get('flags', 0))
    else:
        dt = parser.get_doctest(emit_src + src, globs, name, node.get('filename', modname + '.py'), 0)
        case = doctest.DocTestCase(dt, optionflags=node.get('flags', 0))
    _decorate(case, node, layers)
    return case


def build_tree(node, modname, layers):
    t = node['t']
    if t == 's':
        suite = unittest.TestSuite()
        for ch in node['ch']:
            suite.addTest(build_tree(ch, modname, layers))
        _decorate(suite, node, layers)
        if node.get('wrap') == 'suitelike':
            wrapped = _SuiteLike(suite, '%s.%s' % (modname, node.get('name', 'SL')))
            _decorate(wrapped, node, layers)
            return wrapped
        return suite
    if t == 'c':
        cls, suite = build_case(node, modname, layers)
        return suite
    if t == 'd':
        return build_doctest(node, modname, layers)
    raise RuntimeError('bad node %r' % (node,))


# --------------------------------------------------------------------------------------------
# module materialisation


def load_spec():
    global _SPEC
    if _SPEC is None:
        with open(os.environ['ZTV_SPEC']) as f:
            _SPEC = json.load(f)
        init_from_env()
        install_child_faults(_SPEC)
    return _SPEC


def init_from_env():
    global TRACER, CONTROL_DIR
    tp = os.environ.get('ZTV_TRACE')
    if tp and TRACER.path != tp:
        TRACER = Tracer(tp)
    CONTROL_DIR = os.environ.get('ZTV_CONTROL') or None


def set_spec(spec, tracer=None, control=None):
    """in-process use: install spec / tracer without going through the environment"""
    global _SPEC, TRACER, CONTROL_DIR, _WORLD
    _SPEC = spec
    _WORLD = None
    del _saved_streams[:]
    del _private_streams[:]
    _flaky_counts.clear()
    if tracer is not None:
        TRACER = tracer
    CONTROL_DIR = control


def layers_modname(spec):
    return spec['mp'] + 'layers'


def module_pkg(spec, m):
    """dotted name of the package a test module lives in ('' = top level); every component carries the world's prefix"""
    pkg = m.get('pkg')
    return '.'.join(spec['mp'] + part for part in pkg.split('.')) if pkg else ''


def test_modname(spec, m):
    if m.get('modname'):
        return m['modname']
    base = spec['mp'] + 't_' + m['name']
    pkg = module_pkg(spec, m)
    return pkg + '.' + base if pkg else base


def package_path_args(spec, src):
    """--package-path options for the packages the world wants searched a second time under their dotted name"""
    args = []
    for pkg in spec.get('package_paths') or ():
        dotted = '.'.join(spec['mp'] + part for part in pkg.split('.'))
        args += ['--package-path', os.path.join(src, *dotted.split('.')), dotted]
    return args


def get_layers(spec):
    """the world's layer objects; built once per process, importing the layers module if on disk"""
    global _WORLD
    if _WORLD is not None and _WORLD[0] is spec:
        return _WORLD[1]
    modname = layers_modname(spec)
    mod = sys.modules.get(modname)
    if mod is not None and hasattr(mod, '_ztv_layers'):
        layers = mod._ztv_layers
    else:
        layers = build_layers(spec, modname)
        if mod is None:
            mod = types.ModuleType(modname)
            sys.modules[modname] = mod
        mod._ztv_layers = layers
        for ly in layers:
            setattr(mod, ly.__name__, ly)
    _WORLD = (spec, layers)
    return layers


def materialise_layers(glob):
    """called from the on-disk ``<mp>layers.py`` stub"""
    spec = load_spec()
    layers = build_layers(spec, glob['__name__'])
    glob['_ztv_layers'] = layers
    for ly in layers:
        glob[ly.__name__] = ly


def materialise(glob):
    """called from an on-disk test module stub: define test_suite() for this module"""
    spec = load_spec()
    name = glob['__name__']
    m = None
    for cand in spec['modules']:
        if test_modname(spec, cand) == name:
            m = cand
            break
    if m is None:
        raise ImportError('ztv: module %s is not part of the world' % name)
    _materialise_module(spec, m, glob)


def _materialise_module(spec, m, glob):
    name = glob['__name__']
    emit('import', module=name)
    do_actions(m.get('acts'), 'M:%s' % name)
    if m.get('fail'):
        raise make_exc(m['fail'], 'import of %s failed on purpose' % name)
    if spec['layers']:
        if os.environ.get('ZTV_SPEC') and not sys.modules.get(layers_modname(spec)):
            __import__(layers_modname(spec))
        layers = get_layers(spec)
    else:
        layers = []
    style = m.get('style', 'test_suite')
    if style == 'test_suite':
        def test_suite():
            return build_tree(m['tree'], name, layers)
        glob[spec.get('suite_name', 'test_suite')] = test_suite
    elif style == 'empty_suite':
        # the module switches its tests off: it has test case classes, but its test_suite() selects none of them
        for node in _iter_cases(m['tree']):
            cls, _ = build_case(node, name, layers)
            glob[node['name']] = cls

        def test_suite():
            return unittest.TestSuite()
        glob['test_suite'] = test_suite
    elif style == 'bad_suite':
        def test_suite():
            return 42   # "Invalid test_suite" start-up failure
        glob['test_suite'] = test_suite
    elif style == 'raising_suite':
        def test_suite():
            raise make_exc(m.get('fail_suite', 'ValueError'), 'test_suite() failed on purpose')
        glob['test_suite'] = test_suite
    else:
        # 'classes': let unittest's loader find TestCase classes defined at module level
        for node in _iter_cases(m['tree']):
            cls, _ = build_case(node, name, layers)
            glob[node['name']] = cls


def _iter_cases(node):
    if node['t'] == 'c':
        yield node
    elif node['t'] == 's':
        for ch in node['ch']:
            yield from _iter_cases(ch)


def build_in_memory(spec):
    """build every module of the world without touching the disk; return list of suites
    (StartUpFailure handling is the runner's job, so failing modules are not supported here)"""
    suites = []
    for m in spec['modules']:
        name = test_modname(spec, m)
        mod = types.ModuleType(name)
        sys.modules[name] = mod
        _materialise_module(spec, m, mod.__dict__)
        suites.append(mod.test_suite())
    return suites


def write_world(spec, directory):
    """write the on-disk form: spec file + one stub per module (+ layers stub); returns spec path"""
    os.makedirs(directory, exist_ok=True)
    spec_path = os.path.join(directory, 'world.json')
    with open(spec_path, 'w') as f:
        json.dump(spec, f)
    src = os.path.join(directory, 'src')
    os.makedirs(src, exist_ok=True)
    with open(os.path.join(src, layers_modname(spec) + '.py'), 'w') as f:
        f.write('from ztv.runtime import materialise_layers\nmaterialise_layers(globals())\n')
    for m in spec['modules']:
        rel = m.get('path') or (test_modname(spec, m).replace('.', os.sep) + '.py')
        p = os.path.join(src, rel)
        os.makedirs(os.path.dirname(p), exist_ok=True)
        with open(p, 'w') as f:
            f.write('from ztv.runtime import materialise\nmaterialise(globals())\n')
    return spec_path, src


def purge_modules(prefix):
    for name in [n for n in sys.modules if n.startswith(prefix)]:
        del sys.modules[name]
