"""Drivers: run the real runner on a generated world, in-process or as a CLI subprocess."""
import gc
import io
import logging
import os
import shutil
import subprocess
import sys
import tempfile
import threading
import time
import traceback
import warnings

from . import boot, runtime

ZT_MAIN = os.path.join(boot.VERIF_DIR, 'ztv', 'zt_main.py')
_counter = [0]


class _Sink(io.BufferedIOBase):
    """binary sink shared by the fake stdout and stderr (one ordered byte stream, per-stream tags)"""

    def __init__(self, chunks, tag):
        self.chunks = chunks
        self.tag = tag

    def writable(self):
        return True

    def write(self, b):
        b = bytes(b)
        if b:
            self.chunks.append((self.tag, b))
        return len(b)

    def flush(self):
        pass


class Capture:
    """replacement std streams for an in-process run (text wrappers with a ``.buffer``)"""

    def __init__(self):
        self.chunks = []
        self.out = io.TextIOWrapper(_Sink(self.chunks, 'o'), encoding='utf-8', errors='backslashreplace',
                                    newline='\n', write_through=True)
        self.err = io.TextIOWrapper(_Sink(self.chunks, 'e'), encoding='utf-8', errors='backslashreplace',
                                    newline='\n', write_through=True)

    def text(self, which=None):
        return b''.join(b for tag, b in self.chunks if which in (None, tag)).decode('utf-8', 'replace')


class Run:
    """what the runner claimed (out, failed/exit, exc) and what happened (trace)"""

    def __init__(self):
        self.out = ''
        self.err = ''
        self.failed = None
        self.exit = None
        self.exc = None
        self.exc_tb = None
        self.trace = []
        self.wall = 0.0
        self.timeout = False
        self.runner = None
        self.state_after = None
        self.main_pid = None


def new_prefix():
    _counter[0] += 1
    return 'w%x_%x_' % (os.getpid(), _counter[0])


def tmp_root():
    return os.environ.get('ZTV_TMP') or tempfile.gettempdir()


class GlobalState:
    """snapshot/restore of interpreter state an in-process run may legitimately or wrongly change"""

    def __init__(self):
        self.path = list(sys.path)
        self.cwd = os.getcwd()
        self.stdout, self.stderr, self.stdin = sys.stdout, sys.stderr, sys.stdin
        self.executable = sys.executable
        self.handlers = list(logging.getLogger().handlers)
        self.loglevel = logging.getLogger().level
        self.filters = list(warnings.filters)
        self.gc_thr = gc.get_threshold()
        self.gc_dbg = gc.get_debug()
        import doctest
        import traceback as tb
        self.doctest_flags = doctest.set_unittest_reportflags(0)
        doctest.set_unittest_reportflags(self.doctest_flags)
        self.tb = (tb.format_exception, tb.print_exception)
        self.settrace_fn = sys.settrace
        self.environ_logini = os.environ.get('ZOPE_TESTRUNNER_LOG_INI')
        self.modules = set(sys.modules)
        import pdb
        self.pdb_set_trace = pdb.set_trace

    def restore(self, mp=None):
        import doctest
        import traceback as tb
        sys.path[:] = self.path
        try:
            os.chdir(self.cwd)
        except OSError:
            pass
        sys.stdout, sys.stderr, sys.stdin = self.stdout, self.stderr, self.stdin
        sys.executable = self.executable
        root = logging.getLogger()
        root.handlers[:] = self.handlers
        root.setLevel(self.loglevel)
        warnings.filters[:] = self.filters
        if hasattr(warnings, '_filters_mutated'):
            warnings._filters_mutated()
        gc.set_threshold(*self.gc_thr)
        gc.set_debug(self.gc_dbg)
        doctest.set_unittest_reportflags(self.doctest_flags)
        tb.format_exception, tb.print_exception = self.tb
        sys.settrace = self.settrace_fn
        sys.settrace(None)
        sys.setprofile(None)
        threading.settrace(None)
        threading.setprofile(None)
        if mp:
            runtime.purge_modules(mp)


def run_inproc(spec, args, disk=False, found_suites='auto', cwd=None, script_parts=None, keep_dir=False,
               before=None, stdin=None, warnings_arg=None, use_run_internal=False, defaults=None):
    """Run ``Runner`` inside this process on ``spec``.

    disk=False: the world is built in memory and handed over as ``found_suites``.
    disk=True : stub modules are written to a temp dir and found by real discovery
                (needed when children may be spawned or -m / import errors matter).
    """
    from zope.testrunner.runner import Runner
    run = Run()
    run.main_pid = os.getpid()
    gs = GlobalState()
    cap = Capture()
    tracer = runtime.Tracer()
    workdir = None
    env_saved = {k: os.environ.get(k) for k in ('ZTV_SPEC', 'ZTV_TRACE', 'ZTV_CONTROL')}
    argv = [ZT_MAIN] + list(args)
    try:
        if disk:
            workdir = tempfile.mkdtemp(prefix='ztv-w-', dir=tmp_root())
            spec_path, src = runtime.write_world(spec, workdir)
            trace_path = os.path.join(workdir, 'trace.jsonl')
            tracer = runtime.Tracer(trace_path)
            os.environ['ZTV_SPEC'] = spec_path
            os.environ['ZTV_TRACE'] = trace_path
            argv[1:1] = ['--path', src, '--tests-pattern', '^%st_' % spec['mp']] + runtime.package_path_args(spec, src)
            run.workdir = workdir
            run.src = src
            suites = None
            runtime.set_spec(spec, tracer)
        else:
            runtime.set_spec(spec, tracer)
            os.environ.pop('ZTV_SPEC', None)
            suites = runtime.build_in_memory(spec) if found_suites == 'auto' else found_suites
        runtime.ORIG_STREAMS[0], runtime.ORIG_STREAMS[1] = cap.out, cap.err
        sys.stdout, sys.stderr = cap.out, cap.err
        if stdin is not None:
            sys.stdin = stdin
        if before:
            before()
        t0 = time.time()
        try:
            if use_run_internal:
                import zope.testrunner
                run.failed = zope.testrunner.run_internal(list(defaults or []), argv, script_parts=script_parts or [ZT_MAIN],
                                                          cwd=cwd or gs.cwd, warnings=warnings_arg)
            else:
                runner = Runner(list(defaults or []), argv, found_suites=suites, script_parts=script_parts or [ZT_MAIN],
                                cwd=cwd or gs.cwd, warnings=warnings_arg)
                run.runner = runner
                runner.run()
                run.failed = runner.failed
        except BaseException as e:  # noqa: BLE001 - reported to the oracle, which decides
            run.exc = e
            run.exc_tb = traceback.format_exc()
        run.wall = time.time() - t0
        run.state_after = {
            'stdout_is_orig': sys.stdout is cap.out, 'stderr_is_orig': sys.stderr is cap.err,
        }
    finally:
        try:
            runtime.release_all_threads()
        except Exception:  # noqa: BLE001
            pass
        sys.stdout, sys.stderr = gs.stdout, gs.stderr
        runtime.ORIG_STREAMS[0] = runtime.ORIG_STREAMS[1] = None
        for k, v in env_saved.items():
            if v is None:
                os.environ.pop(k, None)
            else:
                os.environ[k] = v
        if gs.environ_logini is None:
            os.environ.pop('ZOPE_TESTRUNNER_LOG_INI', None)
        run.out = cap.text()
        run.out_only = cap.text('o')
        run.err = cap.text('e')
        if disk:
            tracer.close()
            run.trace = runtime.read_trace(trace_path)
            if not keep_dir:
                shutil.rmtree(workdir, ignore_errors=True)
        else:
            run.trace = tracer.events
        runtime.set_spec(None, runtime.Tracer())
        gs.restore(spec.get('mp'))
        try:
            from zope.testrunner.find import _layer_name_cache
            _layer_name_cache.clear()
        except Exception:  # noqa: BLE001
            pass
    return run


def cli_env(extra=None):
    env = dict(os.environ)
    env['PYTHONHASHSEED'] = env.get('PYTHONHASHSEED', '0')
    env['PYTHONDONTWRITEBYTECODE'] = '1'
    env['PYTHONUNBUFFERED'] = '1'
    env['PYTHONWARNINGS'] = 'ignore'
    env['PYTHONIOENCODING'] = 'utf-8:backslashreplace'
    env['ZTV_REPO_SRC'] = boot.REPO_SRC
    for k in ('COVERAGE_PROCESS_START', 'COVERAGE_PROCESS_CONFIG', 'ZOPE_TESTRUNNER_LOG_INI', 'LOGGING'):
        env.pop(k, None)
    if extra:
        env.update(extra)
    return env


class World:
    """on-disk world in a temp directory (context manager)"""

    def __init__(self, spec):
        self.spec = spec
        self.dir = tempfile.mkdtemp(prefix='ztv-w-', dir=tmp_root())
        self.spec_path, self.src = runtime.write_world(spec, self.dir)
        self.n = 0

    def __enter__(self):
        return self

    def __exit__(self, *a):
        shutil.rmtree(self.dir, ignore_errors=True)

    def base_args(self):
        return (['--path', self.src, '--tests-pattern', '^%st_' % self.spec['mp']]
                + runtime.package_path_args(self.spec, self.src))

    def run(self, args, timeout=120, env=None, control=None, cwd=None, stdin=None, python=None,
            base_args=True):
        self.n += 1
        trace_path = os.path.join(self.dir, 'trace%d.jsonl' % self.n)
        e = {'ZTV_SPEC': self.spec_path, 'ZTV_TRACE': trace_path}
        if control:
            e['ZTV_CONTROL'] = control
        if env:
            e.update(env)
        argv = [python or sys.executable, ZT_MAIN] + (self.base_args() if base_args else []) + list(args)
        run = Run()
        t0 = time.time()
        try:
            p = subprocess.Popen(argv, stdout=subprocess.PIPE, stderr=subprocess.PIPE,
                                 stdin=subprocess.PIPE if stdin is None else stdin,
                                 env=cli_env(e), cwd=cwd or self.dir, start_new_session=True)
            run.main_pid = p.pid
            try:
                out, err = p.communicate(timeout=timeout)
            except subprocess.TimeoutExpired:
                run.timeout = True
                try:
                    os.killpg(p.pid, 9)
                except OSError:
                    pass
                out, err = p.communicate()
            run.exit = p.returncode
        finally:
            run.wall = time.time() - t0
            try:  # nothing the runner started outlives the case
                os.killpg(run.main_pid, 9)
            except (OSError, TypeError):
                pass
        run.out = out.decode('utf-8', 'replace')
        run.err = err.decode('utf-8', 'replace')
        run.failed = None if run.exit not in (0, 1) else bool(run.exit)
        run.trace = runtime.read_trace(trace_path)
        return run

    def popen(self, args, env=None, control=None, cwd=None):
        """start the runner without waiting (scheduled driver); returns (Popen, trace_path)"""
        self.n += 1
        trace_path = os.path.join(self.dir, 'trace%d.jsonl' % self.n)
        e = {'ZTV_SPEC': self.spec_path, 'ZTV_TRACE': trace_path}
        if control:
            e['ZTV_CONTROL'] = control
        if env:
            e.update(env)
        argv = [sys.executable, ZT_MAIN] + self.base_args() + list(args)
        out = open(os.path.join(self.dir, 'out%d.bin' % self.n), 'wb')
        err = open(os.path.join(self.dir, 'err%d.bin' % self.n), 'wb')
        p = subprocess.Popen(argv, stdout=out, stderr=err, stdin=subprocess.DEVNULL,
                             env=cli_env(e), cwd=cwd or self.dir, start_new_session=True)
        return p, trace_path, out.name, err.name


def run_raw(args, trace_path=None, cwd=None, purge_under=None):
    """Run the Runner in-process on real directories (no generated world); returns Run (out, failed, exc)."""
    from zope.testrunner.runner import Runner
    run = Run()
    run.main_pid = os.getpid()
    gs = GlobalState()
    cap = Capture()
    saved_trace = os.environ.get('ZTV_TRACE')
    if trace_path:
        os.environ['ZTV_TRACE'] = trace_path
    try:
        sys.stdout, sys.stderr = cap.out, cap.err
        try:
            runner = Runner([], [ZT_MAIN] + list(args), script_parts=[ZT_MAIN], cwd=cwd or gs.cwd)
            run.runner = runner
            runner.run()
            run.failed = runner.failed
        except BaseException as e:  # noqa: BLE001
            run.exc = e
            run.exc_tb = traceback.format_exc()
    finally:
        sys.stdout, sys.stderr = gs.stdout, gs.stderr
        if saved_trace is None:
            os.environ.pop('ZTV_TRACE', None)
        else:
            os.environ['ZTV_TRACE'] = saved_trace
        run.out = cap.text()
        gs.restore()
        if purge_under:
            from . import fstree
            fstree.purge_modules_under(purge_under)
        try:
            from zope.testrunner.find import _layer_name_cache
            _layer_name_cache.clear()
        except Exception:  # noqa: BLE001
            pass
    return run
