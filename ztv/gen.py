"""Hypothesis strategies that *construct* world specs and option vectors (no rejection sampling)."""
from hypothesis import strategies as st

from . import runtime

HOOKS = ('setUp', 'tearDown', 'testSetUp', 'testTearDown')
LAYER_NAMES = ('LA', 'LB', 'LC', 'LD', 'LE', 'LF', 'LG')

GOOD_KINDS = ('pass', 'skip_deco', 'skip_setup', 'skip_body', 'xfail')
BAD_KINDS = ('fail', 'error', 'error_setup', 'error_teardown', 'error_both', 'fail_teardown',
             'cleanup_error', 'uxsuccess', 'subtests', 'sysexit', 'error_sig', 'cleanup_noncallable')
ALL_KINDS = GOOD_KINDS + BAD_KINDS

SIMPLE_EXCS = ('ValueError', 'KeyError', 'CustomError', 'RuntimeError', 'TypeError', 'OSError')
# what a layer hook may raise: also exception classes that mean something special elsewhere (SkipTest in a test,
# NotImplementedError in a tearDown) - raised by a setUp they are ordinary failures
LAYER_EXCS = SIMPLE_EXCS + ('SkipTest', 'SkipTest', 'AssertionError', 'NotImplementedError')
ALL_EXCS = tuple(runtime.ERROR_EXCS)
ODD_EXCS = tuple(runtime.ODD_EXCS)


@st.composite
def layer_dags(draw, max_layers=5, min_layers=0, hooks='any', faults=None, nie=False, kinds=('class', 'inst'),
               fault_excs=LAYER_EXCS):
    """layers[i] may only name bases j < i (a DAG by construction); names are a generated permutation"""
    n = draw(st.integers(min_layers, max_layers))
    names = draw(st.permutations(LAYER_NAMES))[:n]
    layers = []
    for i in range(n):
        if i == 0:
            bases = []
        else:
            bases = draw(st.lists(st.integers(0, i - 1), max_size=min(i, 3), unique=True))
        if hooks == 'all':
            hk = list(HOOKS)
        elif hooks == 'layer':
            hk = draw(st.lists(st.sampled_from(HOOKS[:2]), unique=True))
        else:
            hk = draw(st.one_of(st.just(list(HOOKS)),
                                st.lists(st.sampled_from(HOOKS), unique=True)))
            hk = sorted(hk, key=HOOKS.index)
        L = {'name': names[i], 'kind': draw(st.sampled_from(kinds)), 'bases': bases, 'hooks': hk}
        if L['kind'] == 'inst' and draw(st.integers(0, 5)) == 0:
            L['falsy'] = True     # an instance layer that is false in a boolean context (an empty container)
        layers.append(L)
    if faults or nie:
        faults = faults or {}
        # faults are placed after the structure is known so that they only name effective hooks
        from . import model
        spec = {'layers': layers, 'mp': 'x'}
        eff = model.effective_hooks(spec)
        for i, L in enumerate(layers):
            f = {}
            for h in ('setUp', 'tearDown'):
                if h in eff[i] and h in faults and draw(st.integers(0, 99)) < faults[h]:
                    f[h] = draw(st.sampled_from(fault_excs if h == 'setUp' else
                                                [x for x in fault_excs if x != 'NotImplementedError']))
            if nie and 'tearDown' in eff[i] and 'tearDown' not in f and draw(st.integers(0, 99)) < nie:
                f['tearDown'] = 'NIE'
            if f:
                L['faults'] = f
    return layers


@st.composite
def tests_list(draw, kinds=ALL_KINDS, min_tests=1, max_tests=4, excs=SIMPLE_EXCS, weights_good=50, sub_skip=False):
    n = draw(st.integers(min_tests, max_tests))
    names = draw(st.permutations(['test_a', 'test_b', 'test_c', 'test_d', 'test_e', 'test_f', 'test_g', 'test_h']))[:n]
    good = [k for k in kinds if k in GOOD_KINDS]
    bad = [k for k in kinds if k in BAD_KINDS]
    out = []
    for nm in names:
        if good and (not bad or draw(st.integers(0, 99)) < weights_good):
            k = draw(st.sampled_from(good))
        else:
            k = draw(st.sampled_from(bad))
        t = {'n': nm, 'k': k}
        if k in ('error', 'error_setup', 'error_teardown', 'error_both', 'fail_teardown', 'cleanup_error',
                 'subtests'):
            t['exc'] = draw(st.sampled_from(excs))
        if k == 'subtests':
            pool = [['pass'], ['fail'], ['error']] + ([['skip']] if sub_skip else [])
            t['sub'] = draw(st.lists(st.sampled_from(pool), min_size=1, max_size=4))
        out.append(t)
    return out


@st.composite
def suite_tree(draw, nlayers, depth=2, kinds=ALL_KINDS, max_tests=4, levels=False, layer_decl=60,
               excs=SIMPLE_EXCS, case_counter=None, inst_attrs=False, explicit_unit=False, weights_good=50,
               max_children=3, sub_skip=False):
    """nested suites; 'layer'/'level' present or absent at each depth, on the case class, on the instance"""
    counter = case_counter if case_counter is not None else [0]

    def decl(node):
        if nlayers and draw(st.integers(0, 99)) < layer_decl:
            lo = -1 if explicit_unit else 0
            node['layer'] = draw(st.integers(lo, nlayers - 1))
        elif explicit_unit and draw(st.integers(0, 99)) < 10:
            node['layer'] = -1
        if levels and draw(st.integers(0, 99)) < 50:
            node['level'] = draw(st.integers(-1, 4))

    def case():
        counter[0] += 1
        node = {'t': 'c', 'name': 'TC%d' % counter[0],
                'tests': draw(tests_list(kinds=kinds, max_tests=max_tests, excs=excs, weights_good=weights_good,
                                         sub_skip=sub_skip))}
        decl(node)
        if inst_attrs:
            for t in node['tests']:
                if nlayers and draw(st.integers(0, 99)) < 15:
                    t['ilayer'] = draw(st.integers(0, nlayers - 1))
                if levels and draw(st.integers(0, 99)) < 15:
                    t['ilevel'] = draw(st.integers(-1, 4))
        return node

    def suite(d):
        node = {'t': 's', 'ch': []}
        decl(node)
        nch = draw(st.integers(1, max_children))
        for _ in range(nch):
            if d > 0 and draw(st.booleans()):
                node['ch'].append(suite(d - 1))
            else:
                node['ch'].append(case())
        return node

    return suite(depth)


@st.composite
def worlds(draw, max_layers=4, min_layers=0, hooks='any', faults=None, nie=0, layer_kinds=('class', 'inst'),
           kinds=ALL_KINDS, max_modules=2, depth=2, max_tests=4, levels=False, excs=SIMPLE_EXCS,
           inst_attrs=False, explicit_unit=False, weights_good=50, layer_decl=60, max_children=3,
           fault_excs=LAYER_EXCS, sub_skip=False):
    layers = draw(layer_dags(max_layers=max_layers, min_layers=min_layers, hooks=hooks, faults=faults, nie=nie,
                             kinds=layer_kinds, fault_excs=fault_excs))
    nmod = draw(st.integers(1, max_modules))
    modnames = draw(st.permutations(['a', 'b', 'c', 'd']))[:nmod]
    counter = [0]
    modules = []
    for nm in modnames:
        modules.append({'name': nm, 'tree': draw(suite_tree(
            len(layers), depth=depth, kinds=kinds, max_tests=max_tests, levels=levels, excs=excs,
            case_counter=counter, inst_attrs=inst_attrs, explicit_unit=explicit_unit,
            weights_good=weights_good, layer_decl=layer_decl, max_children=max_children, sub_skip=sub_skip))})
    return {'layers': layers, 'modules': modules}


@st.composite
def shaped_world(draw, kinds=('pass', 'pass', 'fail', 'error', 'skip_body'), excs=SIMPLE_EXCS, nie=True, focus=None):
    """A directed layer topology: one base LA, two layers LB(LA) and LC(LA) derived from it, one unrelated layer LD
    (optionally with its own base LE); tests in every layer, in that run order.  Faults are drawn per hook from
    {none, exception, NotImplementedError (tearDown only)}.  The shape makes the rare situations frequent that random
    DAGs almost never hit together: a tear-down *sweep* in the middle of the run that meets a failing tearDown and a
    NotImplementedError tearDown, two layers sharing a base whose setUp fails, layers left set up when the rest of the
    run moves to subprocesses."""
    if draw(st.integers(0, 2)) == 0:
        return draw(multibase_world(kinds=kinds, excs=excs, nie=nie))
    with_le = draw(st.booleans())
    layers = [
        {'name': 'LA', 'kind': 'class', 'bases': [], 'hooks': ['setUp', 'tearDown']},
        {'name': 'LB', 'kind': 'class', 'bases': [0], 'hooks': ['setUp', 'tearDown']},
        {'name': 'LC', 'kind': 'class', 'bases': [0], 'hooks': ['setUp', 'tearDown']},
    ]
    if with_le:
        layers.append({'name': 'LE', 'kind': 'class', 'bases': [], 'hooks': ['setUp', 'tearDown']})
        layers.append({'name': 'LF', 'kind': 'class', 'bases': [3], 'hooks': ['setUp', 'tearDown']})
    else:
        layers.append({'name': 'LD', 'kind': 'class', 'bases': [], 'hooks': ['setUp', 'tearDown']})
    kind = draw(st.sampled_from(['class', 'class', 'inst']))
    # half of the worlds follow a scenario (exactly the named hooks are faulty), the others draw every hook independently
    scenario = draw(st.sampled_from(['random', 'random', 'random', 'sweep-exc+nie', 'sweep-nie+exc', 'shared-base-setup',
                                     'nie-with-base-left', 'derived-setup', 'derived-setup+base-nie'] + list(focus or ())))
    plan = {'sweep-exc+nie': {'LC': 'td-exc', 'LA': 'td-nie'}, 'sweep-nie+exc': {'LC': 'td-nie', 'LA': 'td-exc'},
            'shared-base-setup': {'LA': 'su-exc'}, 'nie-with-base-left': {'LB': 'td-nie'},
            'derived-setup': {'LB': 'su-exc'},
            'derived-setup+base-nie': {'LB': 'su-exc', 'LA': 'td-nie'}}.get(scenario)
    for L in layers:
        L['kind'] = kind
        f = {}
        if plan is not None:
            r = plan.get(L['name'], 'none')
        else:
            r = draw(st.sampled_from(['none', 'none', 'none', 'none', 'td-exc', 'td-exc', 'td-nie', 'td-nie', 'su-exc']))
        if r == 'td-exc':
            f['tearDown'] = draw(st.sampled_from(SIMPLE_EXCS))
        elif r == 'td-nie' and nie:
            f['tearDown'] = 'NIE'
        elif r == 'su-exc':
            f['setUp'] = draw(st.sampled_from(SIMPLE_EXCS))
        if f:
            L['faults'] = f
    cases_ = []
    with_tests = [i for i in range(len(layers)) if i != 0 or draw(st.booleans())]
    if with_le and draw(st.booleans()):
        with_tests = [i for i in with_tests if i != 3]
    for i in with_tests:
        cases_.append({'t': 'c', 'name': 'TC%d' % (i + 1), 'layer': i,
                       'tests': draw(tests_list(kinds=kinds, max_tests=2, excs=excs, weights_good=70))})
    if draw(st.integers(0, 3)) == 0:
        cases_.append({'t': 'c', 'name': 'TC9', 'tests': draw(tests_list(kinds=kinds, max_tests=2, excs=excs))})
    return {'layers': layers, 'modules': [{'name': 'a', 'tree': {'t': 's', 'ch': cases_}}], 'shaped': scenario}


@st.composite
def multibase_world(draw, kinds=('pass', 'pass', 'fail', 'error', 'skip_body'), excs=SIMPLE_EXCS, nie=True):
    """Three independent base layers, one layer combining all three (in a generated order of bases), further layers
    (or tests of their own) on some of the bases; names are a generated permutation, so which of them runs first varies.
    One hook somewhere is faulty: the situations in which a fault while building / unbuilding one stack must not touch
    a layer that another stack shares."""
    names = draw(st.permutations(LAYER_NAMES))
    kind = draw(st.sampled_from(['class', 'class', 'inst']))
    order = draw(st.permutations([0, 1, 2]))
    layers = [{'name': names[i], 'kind': kind, 'bases': [], 'hooks': ['setUp', 'tearDown']} for i in range(3)]
    layers.append({'name': names[3], 'kind': kind, 'bases': list(order), 'hooks': ['setUp', 'tearDown']})
    others = draw(st.lists(st.integers(0, 2), min_size=1, max_size=3, unique=True))
    for k, b in enumerate(others):
        layers.append({'name': names[4 + k], 'kind': kind, 'bases': [b], 'hooks': ['setUp', 'tearDown']})
    victim = draw(st.sampled_from([0, 1, 2, 0, 1, 2, 3]))
    how = draw(st.sampled_from(['su-exc', 'su-exc', 'td-exc', 'td-nie' if nie else 'td-exc']))
    layers[victim]['faults'] = ({'setUp': draw(st.sampled_from(SIMPLE_EXCS))} if how == 'su-exc' else
                                {'tearDown': 'NIE' if how == 'td-nie' else draw(st.sampled_from(SIMPLE_EXCS))})
    with_tests = list(range(3, len(layers))) + [i for i in range(3) if draw(st.integers(0, 3)) == 0]
    cases_ = [{'t': 'c', 'name': 'TC%d' % (i + 1), 'layer': i,
               'tests': draw(tests_list(kinds=kinds, max_tests=2, excs=excs, weights_good=70))} for i in sorted(with_tests)]
    return {'layers': layers, 'modules': [{'name': 'a', 'tree': {'t': 's', 'ch': cases_}}], 'shaped': 'multi-base'}


def iter_tests(spec):
    def walk(node):
        if node['t'] == 'c':
            for t in node['tests']:
                yield node, t
        elif node['t'] == 's':
            for ch in node['ch']:
                yield from walk(ch)
    for m in spec['modules']:
        if 'tree' in m:
            yield from walk(m['tree'])


# ------------------------------------------------------------------------------------------------
# output actions with unique tokens (C04, C07, C12, C13)

OUT_STREAMS = ('o', 'e', 'p', 'ob', 'eb')


def add_outputs(draw, spec, prob=50, streams=OUT_STREAMS, phases=('setUp', 'body', 'tearDown'), bad_bytes=True,
                max_per_test=3, dots=False):
    """give tests output actions; every written token is unique in the world: 'Tk<n>q'.

    Returns {token: (test id parts (module name, case, method), stream class 'o'|'e', phase)}."""
    from . import runtime
    tokens = {}
    n = [0]
    for m in spec['modules']:
        modname = m['name']
        for node, t in _iter_module_tests(m):
            if draw(st.integers(0, 99)) >= prob:
                continue
            acts = t.setdefault('acts', {})
            for _ in range(draw(st.integers(1, max_per_test))):
                ph = draw(st.sampled_from(phases))
                stream = draw(st.sampled_from(streams))
                n[0] += 1
                tok = 'Tk%dq' % n[0]
                style = draw(st.sampled_from(['nl', 'nonl', 'multi', 'bad'] if bad_bytes and stream in ('ob', 'eb')
                                             else ['nl', 'nonl', 'multi', 'dot', 'dots'] if dots else ['nl', 'nonl', 'multi']))
                # ('dot', 'dots': lines that begin like the progress marks a layer subprocess prints, but are not marks)
                text = {'nl': tok + '\n', 'nonl': tok, 'multi': 'first line\nsecond line\n' + tok,
                        'dot': './rel/path ' + tok + '\n', 'dots': '... ' + tok + '\n',
                        'bad': '\xff\xfe' + tok + '\xc3\n'}[style]
                acts.setdefault(ph, []).append(['out', stream, text])
                tokens[tok] = {'module': modname, 'case': node['name'], 'test': t['n'],
                               'stream': 'e' if stream in ('e', 'eb') else 'o', 'phase': ph}
    return tokens


def _iter_module_tests(m):
    def walk(node):
        if node['t'] == 'c':
            for t in node['tests']:
                yield node, t
        elif node['t'] == 's':
            for ch in node['ch']:
                yield from walk(ch)
    if 'tree' in m:
        yield from walk(m['tree'])
