"""C17 - XML reports are well-formed and agree with the run."""
import os
import shutil
import tempfile
import xml.parsers.expat
from collections import Counter
from xml.etree import ElementTree

from hypothesis import strategies as st

from .. import drive, gen, model
from ..engine import Outcome, Part, Prop
from . import common

HOSTILE = ['\x00', '\x01', '\x08', '\x0b', '\x0c', '\x1b', '\x7f', '\x85', '\x9f', '\ud800', '\udfff', '\udc80',
           '￾', '￿', '<', '>', '&', '"', "'", ']]>', '<![CDATA[', '&#0;', '&amp;', '\r', '\n', '\t',
           ' ', '\U0001F600', 'é', '\xa0']


def _is_xml_char(c):
    o = ord(c)
    return o in (9, 10, 13) or 0x20 <= o <= 0xD7FF or 0xE000 <= o <= 0xFFFD or 0x10000 <= o <= 0x10FFFF


def messages():
    chunk = st.one_of(st.sampled_from(HOSTILE), st.text(max_size=6), st.characters(), st.just('plain words'))
    return st.lists(chunk, min_size=0, max_size=6).map(''.join)


def test_names(thorough):
    ident = st.text(alphabet=st.characters(categories=('Ll', 'Lu', 'Nd', 'Lo'), max_codepoint=0x2FFF) |
                    st.sampled_from(list('abc_09')), min_size=1, max_size=6)
    base = ident.map(lambda s: 'test_' + s)
    if thorough:
        odd = st.lists(st.one_of(st.sampled_from(HOSTILE + [' ', '.', '(', ')']), st.text(max_size=3)),
                       min_size=1, max_size=4).map(lambda xs: 'test_' + ''.join(xs))
        return st.one_of(base, base, odd)
    return base


@st.composite
def cases(draw, thorough=False, procs=False):
    spec = draw(gen.worlds(max_layers=3 if procs else 2, min_layers=2 if procs else 0, hooks='layer', kinds=gen.ALL_KINDS, max_modules=2, depth=1,
                           max_tests=4, weights_good=40, layer_decl=50, explicit_unit=True, max_children=3,
                           excs=gen.ALL_EXCS, inst_attrs=True))
    hostile = draw(st.sampled_from(['all', 'all', 'names-only', 'none']))
    used = set()
    for node, t in gen.iter_tests(spec):
        if hostile in ('all',):
            t['msg'] = draw(messages())
        nm = draw(test_names(thorough)) if hostile != 'none' else t['n']
        if hostile != 'none' and draw(st.booleans()) and (node['name'], nm) not in used:
            t['n'] = nm
        used.add((node['name'], t['n']))
    # make names unique inside a case class
    for m in spec['modules']:
        for node in _cases_in(m['tree']):
            seen = set()
            for t in node['tests']:
                while t['n'] in seen:
                    t['n'] += '_'
                seen.add(t['n'])
    # subtests described by values that contain dots, brackets, blanks; test objects counting for 0 or several test cases
    for node, t in gen.iter_tests(spec):
        if t['k'] == 'subtests' and draw(st.booleans()):
            t['sub'] = [[sub[0], {draw(st.sampled_from(['value', 'host'])):
                                  draw(st.sampled_from([1.5, 2.5, 'a.b', 'see README.txt', '(x)', 'x y', '', 0]))}]
                        for sub in t['sub']]
        if draw(st.integers(0, 7)) == 0:
            t['count'] = draw(st.sampled_from([0, 2, 3]))
    # class names that differ only in letters outside ASCII (any mapping of suite names to file names must keep them apart)
    if draw(st.integers(0, 2)) == 0:
        pool = draw(st.permutations(['TC\u0394x', 'TC\u03a3x', 'TC_x', 'TC\u00e9x', 'TCex', 'TC\u0416x', 'TC\u00c9x']))
        k = 0
        for m in spec['modules']:
            for node in _cases_in(m['tree']):
                if k < len(pool):
                    node['name'] = pool[k]
                    k += 1
    # test case classes whose instances are false in a boolean context (a __len__ of 0)
    for m in spec['modules']:
        for node in _cases_in(m['tree']):
            if draw(st.integers(0, 5)) == 0:
                node['falsy'] = True
    # doctests
    ndoc = draw(st.integers(0, 2))
    for k in range(ndoc):
        kind = draw(st.sampled_from(['pass', 'fail', 'error']))
        msg = draw(messages())
        if kind == 'pass':
            ex = [['1 + 1', '2']]
        elif kind == 'fail':
            ex = [['print(%r)' % msg, 'something else']]
        else:
            ex = [['raise ValueError(%r)' % msg, '']]
        node = {'t': 'd', 'name': 'doc%d' % k, 'examples': ex, 'k': kind}
        if draw(st.booleans()):
            node['file'] = '/srv/pkg%d/sub/doc%d.txt' % (k, k)
        spec['modules'][0]['tree']['ch'].append(node)
    opts = {'repeat': draw(st.sampled_from([1, 1, 2])), 'verbose': draw(st.integers(0, 2)),
            'buffer': draw(st.sampled_from([False, False, True]))}
    # tests that print hostile characters (what --buffer captures may end up in the report as well); lone surrogates are
    # left out here because writing them to a stream can itself raise inside the test
    for node, t in gen.iter_tests(spec):
        if draw(st.integers(0, 3)) == 0:
            text = ''.join(c for c in draw(messages()) if not 0xD800 <= ord(c) <= 0xDFFF)
            t.setdefault('acts', {}).setdefault(draw(st.sampled_from(['setUp', 'body'])), []).append(
                ['out', draw(st.sampled_from(['o', 'e'])), text + '\n'])
    relxml = False
    if not procs and draw(st.integers(0, 5)) == 0:
        # --xml DIR with a relative DIR, and a test that leaves the working directory changed
        tests = [t for _, t in gen.iter_tests(spec)]
        if tests:
            relxml = True
            t = tests[draw(st.integers(0, len(tests) - 1))]
            t.setdefault('acts', {}).setdefault(draw(st.sampled_from(['setUp', 'body'])), []).append(['chdir', '/'])
    if procs:
        # a layer subprocess prints to a pipe in strict UTF-8: lone surrogates cannot be printed there (environment
        # precondition "the console can encode what is printed"), so they are left out of everything that gets printed
        def clean(s):
            return ''.join(c for c in s if not 0xD800 <= ord(c) <= 0xDFFF)
        for node, t in gen.iter_tests(spec):
            if 'msg' in t:
                t['msg'] = clean(t['msg'])
        for m in spec['modules']:
            for ch in m['tree']['ch']:
                if ch.get('t') == 'd':
                    import re
                    ch['examples'] = [[re.sub(r'\\ud[89a-fA-F][0-9a-fA-F]{2}', '?', clean(a)), clean(b)]
                                      for a, b in ch['examples']]
        for L in spec['layers']:
            L['hooks'] = sorted(set(L['hooks']) | {'setUp', 'tearDown'}, key=gen.HOOKS.index)
        if draw(st.integers(0, 3)) == 0:
            # a module that cannot be imported is reported as well (as an error of its own)
            spec['modules'].append({'name': 'x1', 'fail': draw(st.sampled_from(('ImportError', 'ValueError', 'SyntaxError'))),
                                    'tree': {'t': 's', 'ch': []}})
        mode = draw(st.sampled_from(['resume', 'resume', 'j2', 'j3', 'plain']))
        if mode == 'plain':
            pass
        elif mode == 'resume':
            for L in spec['layers']:
                L.setdefault('faults', {})['tearDown'] = 'NIE'
        else:
            opts['j'] = int(mode[1])
    return {'spec': spec, 'opts': opts, 'relxml': relxml}


def _cases_in(node):
    if node['t'] == 'c':
        yield node
    elif node['t'] == 's':
        for ch in node['ch']:
            yield from _cases_in(ch)


def name_matches(expected, got, prefix=False):
    """equal, where each character that cannot occur in XML may be spelled as any short escape"""
    import re
    esc = r'(?:\\x[0-9a-fA-F]{2,6}|\\u[0-9a-fA-F]{4}|\\U[0-9a-fA-F]{8}|&#x?[0-9a-fA-F]+;|\ufffd|\?|)'
    pat = ''.join(re.escape(c) if _is_xml_char(c) else esc for c in expected)
    return re.match(pat + ('' if prefix else r'\Z'), got or '', re.S) is not None


def read_reports(folder):
    """{file name: (root element | None, error text)} with a *strict* expat parse first"""
    out = {}
    d = os.path.join(folder, 'testreports')
    if not os.path.isdir(d):
        return out
    for name in sorted(os.listdir(d)):
        path = os.path.join(d, name)
        with open(path, 'rb') as f:
            data = f.read()
        try:
            p = xml.parsers.expat.ParserCreate()
            p.Parse(data, True)
        except xml.parsers.expat.ExpatError as e:
            out[name] = (None, '%s (bytes around: %r)' % (e, data[max(0, e.offset - 20):e.offset + 20]
                                                         if hasattr(e, 'offset') else ''))
            continue
        out[name] = (ElementTree.fromstring(data), None)
    return out


def oracle(spec, opts, run, folder):
    viol = common.run_escaped(run, 'C17')
    if viol:
        return viol
    reports = read_reports(folder)
    repeat = opts.get('repeat', 1)
    # classes whose tests ran in more than one process (instance-level layer declarations + layer subprocesses)
    pids_of_class = {}
    for e in run.trace:
        if e['ev'] == 'T' and e['ph'] == 'run':
            pids_of_class.setdefault(e['id'].rsplit('.', 1)[0], set()).add(e['pid'])
    split_classes = {c for c, pids in pids_of_class.items() if len(pids) > 1}
    cases_seen = Counter()      # (classname, name, kind) kind in pass/failure/error
    for fname, (root, err) in reports.items():
        if root is None:
            viol.append(('C17/not-well-formed', 'report %s: %s' % (fname, err)))
            continue
        tcs = root.findall('testcase')
        nerr = sum(len(tc.findall('error')) for tc in tcs)
        nfail = sum(len(tc.findall('failure')) for tc in tcs)
        if (root.get('tests'), root.get('errors'), root.get('failures')) != (str(len(tcs)), str(nerr), str(nfail)):
            viol.append(('C17/suite-attributes', 'report %s: tests/errors/failures=%s/%s/%s but %d testcase, %d error, '
                         '%d failure elements' % (fname, root.get('tests'), root.get('errors'), root.get('failures'),
                                                  len(tcs), nerr, nfail)))
        for tc in tcs:
            kind = 'error' if tc.find('error') is not None else 'failure' if tc.find('failure') is not None else 'pass'
            cases_seen[(tc.get('classname'), tc.get('name'), kind)] += 1
    if any(r is None for r, _ in reports.values()):
        return viol
    # what must be there
    expect = Counter()
    subfails = {}
    subdescs = {}    # test id -> the descriptions unittest gives its failing subtests ("(i=0, value=1.5)")
    for e in run.trace:
        if e['ev'] == 'T' and e['ph'] == 'subfail':
            subfails.setdefault(e['id'], []).append(e['kind'])
            if e.get('sid', '').startswith(e['id'] + ' '):
                subdescs.setdefault(e['id'], set()).add(e['sid'][len(e['id']) + 1:])
    for rec in model.resolve(spec):
        t = rec['t']
        if rec.get('doctest'):
            k = t['k']
            kind = {'pass': 'pass', 'fail': 'failure', 'error': 'failure'}[k]  # doctest reports both as failures
            if t.get('file'):
                parts = [p for p in t['file'].split('/') if p]
                # class name: the package-like directories (no dots), name: the doctest name (= file path)
                expect[('doctest', t['file'], kind)] += repeat
            else:
                dn = rec['id']
                expect[(dn.rsplit('.', 1)[0], dn.rsplit('.', 1)[1], kind)] += repeat
            continue
        cls = '%s.%s' % (rec['module'], rec['cls'])
        f, er, s, u = model.events_of(t)
        k = t['k']
        if k == 'subtests':
            kinds = subfails.get(rec['id'], [])
            for kk in kinds:
                expect[(cls, t['n'], 'failure' if kk == 'fail' else 'error', rec['id'])] += 1
            if not kinds:
                expect[(cls, t['n'], 'pass')] += repeat
            continue
        if k in ('skip_deco', 'skip_setup', 'skip_body'):
            continue
        if f + er + u == 0:
            expect[(cls, t['n'], 'pass')] += repeat
        else:
            expect[(cls, t['n'], 'failure')] += f * repeat
            expect[(cls, t['n'], 'error')] += (er + u) * repeat
    # compare: exact for plain tests, prefix match on the name for subtests, suffix rules for doc files
    remaining = Counter(cases_seen)
    # names made only of XML characters first (they match exactly), hostile ones pick from what is left
    for key4, n in sorted(expect.items(), key=lambda kv: (not all(map(_is_xml_char, kv[0][1])), len(kv[0]) == 4)):
        cls, name, kind = key4[:3]
        is_sub = len(key4) == 4
        if n <= 0:
            continue
        if cls == 'doctest':
            got = sum(c for (c_, n_, k_), c in remaining.items() if k_ == kind and n_ == name)
            for key in [key for key in remaining if key[2] == kind and key[1] == name]:
                del remaining[key]
        elif is_sub:
            # a failing subtest is filed under its test's class, named as the test or as the test plus the subtest's
            # own description
            descs = subdescs.get(key4[3]) or ()
            keys = [key for key in remaining if key[0] == cls and key[2] == kind and
                    (name_matches(name, key[1]) or any(name_matches(name + ' ' + d, key[1]) for d in descs))]
            got = sum(remaining[key] for key in keys)
            for key in keys:
                del remaining[key]
        else:
            keys = [key for key in remaining if key[0] == cls and key[2] == kind and name_matches(name, key[1])]
            got = sum(remaining[key] for key in keys)
            for key in keys:
                del remaining[key]
        if got != n:
            what = 'passing test' if kind == 'pass' else 'reported %s' % kind
            if cls in split_classes and got < n:
                # recorded finding: every process writes <class>.xml on its own, the later one replaces the earlier one
                viol.append(('C17/class-split-over-processes/report-overwritten',
                             '%s %s.%s is missing from the report: the tests of class %s ran in %d processes, each of which '
                             'wrote %s.xml' % (what, cls, name, cls, len(pids_of_class[cls]), cls)))
                continue
            viol.append(('C17/%s-missing-or-misattributed' % ('pass' if kind == 'pass' else 'bad'),
                         '%s %s.%s: expected %d testcase element(s) with classname=%r and that name, found %d; '
                         'unmatched testcases: %s' % (what, cls, name, n, cls, got,
                                                       sorted(map(repr, remaining))[:6])))
    # a module that could not be imported is a reported error: it appears as an error testcase named after the module
    # (once per process that met it)
    from .. import runtime
    for m in spec['modules']:
        if m.get('fail'):
            mn = runtime.test_modname(spec, m)
            keys = [key for key in remaining if key[2] == 'error' and mn in (key[0] or '')]
            if not keys:
                viol.append(('C17/bad-missing-or-misattributed', 'module %s could not be imported, but no error testcase '
                             'names it; unmatched testcases: %s' % (mn, sorted(map(repr, remaining))[:6])))
            for key in keys:
                del remaining[key]
    for key, n in remaining.items():
        if n > 0:
            viol.append(('C17/unexpected-testcase', 'testcase %r x%d does not correspond to any executed test'
                         % (key, n)))
    return viol


class InProc(Part):
    name = 'inproc'
    examples = {'quick': 2000, 'thorough': 40000}

    def strategy(self, tier):
        return cases(thorough=(tier == 'thorough'))

    def execute(self, case):
        spec = common.with_prefix(case['spec'])
        folder = tempfile.mkdtemp(prefix='ztv-xml-', dir=drive.tmp_root())
        try:
            if case.get('relxml'):
                # the directory is named relative to where the run was started
                opts = dict(case['opts'], xml='reports')
                run = drive.run_inproc(spec, common.args_of(opts), before=lambda: os.chdir(folder))
                viol = oracle(spec, opts, run, os.path.join(folder, 'reports'))
            else:
                opts = dict(case['opts'], xml=folder)
                run = drive.run_inproc(spec, common.args_of(opts))
                viol = oracle(spec, opts, run, folder)
        finally:
            shutil.rmtree(folder, ignore_errors=True)
        hostile = False
        for node, t in gen.iter_tests(spec):
            if model.is_bad(t) and any(not _is_xml_char(c) for c in t.get('msg', '')):
                hostile = True
            if any(not _is_xml_char(c) for c in t['n']):
                hostile = True
        kinds = common.count_kinds(spec)
        special = 'subtests' in kinds or 'uxsuccess' in kinds
        labels = []
        if case.get('relxml'):
            labels.append('relative-xml-dir+chdir')
        if any(not n['name'].isascii() for m in spec['modules'] for n in _cases_in(m['tree'])):
            labels.append('non-ASCII-class-names')
        if hostile:
            labels.append('non-XML-char')
        if special:
            labels.append('subtests-or-uxsuccess')
        if any(ch.get('t') == 'd' for m in spec['modules'] for ch in m['tree']['ch']):
            labels.append('doctest')
        return Outcome(viol, labels, hostile or special)


class Procs(Part):
    """the same oracle when the layers run in subprocesses (resumed after NotImplementedError tear-downs, or -j N): every
    process writes the reports of its own tests into the one folder"""
    name = 'procs'
    examples = {'quick': 96, 'thorough': 1500}

    def strategy(self, tier):
        return cases(thorough=False, procs=True)

    def execute(self, case):
        spec = common.with_prefix(case['spec'])
        folder = tempfile.mkdtemp(prefix='ztv-xml-', dir=drive.tmp_root())
        try:
            opts = dict(case['opts'], xml=folder)
            run = drive.run_inproc(spec, common.args_of(opts), disk=True)
            viol = oracle(spec, opts, run, folder)
        finally:
            shutil.rmtree(folder, ignore_errors=True)
        from .. import traceana
        nchild = len(traceana.by_pid(run.trace)) - 1
        return Outcome(viol, ['children=%d' % min(nchild, 4), 'j' if opts.get('j') else 'resume'], nchild >= 2)


class C17(Prop):
    id = 'C17'
    registered = True
    technique = ('Hypothesis-generated worlds with hostile Unicode in messages and names, every outcome kind, doctests; '
                 'strict expat parse + element/attribute consistency + per-test presence oracle over the written files')
    level_text = ('Worlds whose exception messages and test names range over all of Unicode (C0/C1 controls, NUL, lone '
                  'surrogates, markup characters, "]]>"), with every outcome kind including failing subtests and '
                  'unexpected successes and with doctest cases, are run with --xml (and --repeat); every written file '
                  'must parse with expat in strict mode, suite attributes must equal element counts, every passing test '
                  'must appear once per iteration and every reported failure/error under its own class and name.')
    level_note = ('manuel cases cannot be exercised (not installed); layer failures and skips are not part of the XML '
                  'format and are not asserted; runs are in-process so that the console stream can encode everything.')
    rule = ('Hypothesis worlds (0..2 layers, 1..2 modules, tests of 15 kinds, 20 exception classes, 0..2 doctest cases), '
            'messages = concatenations of hostile pieces and arbitrary text, names = Unicode identifiers (thorough: '
            'arbitrary attribute names). Non-trivial = a failing test message or a test name contains a character '
            'outside XML 1.0 Char, or the world has failing subtests / an unexpected success.')
    assumptions = ('a failing subtest counts as reported under its own test when classname is the test\'s class and the '
                   'name is the method name, alone or followed by the description unittest gives that subtest',)
    parts = (InProc(), Procs())


PROP = C17()
