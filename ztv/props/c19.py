"""C19 - threads left behind by a test are reported precisely.

The world owns the schedule: a thread is either joined before its test ends or blocked until a later
test releases it, and a release waits until the thread has really disappeared from
``sys._current_frames()``; so which threads are alive at each test boundary is deterministic.
"""
import re

from hypothesis import strategies as st

from .. import drive, parse
from ..engine import Outcome, Part, Prop
from . import common

NAMES = [None, None, 'worker', 'pool-1', 'ignored-a', 'ignored-b', 'Dummy-x', 'bg thread']
IGNORE = [[], [], ['ignored-'], ['ignored-a$', 'pool'], ['.*'], ['Dummy-'], ['Thread-\\d+'], ['xyz'],
          ['orker', '-1$'], ['thread', '\\d'], ['-b', 'ummy'], ['WORKER', 'ignored$']]   # documented: *match* mode

RE_THREAD = re.compile(r'<\w*Thread\((.*?), started (?:daemon )?(\d+)\)>')
RE_DUMMY = re.compile(r'DummyThread (\d+), started, daemon')


@st.composite
def cases(draw):
    ntests = draw(st.integers(1, 6))
    tests = []
    open_tags = []     # threads held and not yet released
    renamable = set()
    raw_unregistered = set()
    tag = 0
    for i in range(ntests):
        t = {'n': 'test_%02d' % i, 'k': draw(st.sampled_from(['pass', 'pass', 'pass', 'fail', 'error', 'skip_body'])),
             'acts': {}}
        phases = {'setUp': [], 'body': [], 'tearDown': []}
        # release some earlier leaks first or last (ident reuse needs release-then-start)
        rel = [g for g in open_tags if draw(st.integers(0, 2)) == 0]
        release_first = draw(st.booleans())
        nstart = draw(st.integers(0, 3))
        starts = []
        for _ in range(nstart):
            tag += 1
            a = {'op': 'start', 'tag': 'g%d' % tag, 'api': draw(st.sampled_from(['threading', 'threading', '_thread'])),
                 'name': draw(st.sampled_from(NAMES)), 'hold': draw(st.sampled_from([True, True, False]))}
            if a['api'] == '_thread':
                a['name'] = None
                a['register'] = draw(st.booleans())
            elif draw(st.integers(0, 5)) == 0:
                a['falsy'] = True
            ph = draw(st.sampled_from(['setUp', 'body', 'body', 'tearDown']))
            if t['k'] == 'skip_body' and ph == 'body':
                pass
            starts.append((ph, a))
        # a thread may also be started and released inside the same test
        for ph, a in starts:
            phases[ph].append(['thread', a])
            if a['hold'] and draw(st.integers(0, 3)) == 0:
                phases['tearDown'].append(['thread', {'op': 'release', 'tag': a['tag']}])
                a['_released_same_test'] = True
        # a thread object left by an earlier test gets another name (pools rename their workers per job)
        for g in open_tags:
            if g not in rel and g in renamable and draw(st.integers(0, 3)) == 0:
                phases[draw(st.sampled_from(['setUp', 'body', 'tearDown']))].append(
                    ['thread', {'op': 'rename', 'tag': g, 'name': draw(st.sampled_from(NAMES[2:] + ['job-7']))}])
        # a raw thread left by an earlier test calls into ``threading`` for the first time (logging does that)
        for g in open_tags:
            if g not in rel and g in raw_unregistered and draw(st.integers(0, 2)) == 0:
                phases[draw(st.sampled_from(['setUp', 'body', 'tearDown']))].append(
                    ['thread', {'op': 'register', 'tag': g}])
                raw_unregistered.discard(g)
        relacts = [['thread', {'op': 'release', 'tag': g}] for g in rel]
        if release_first:
            phases['setUp'] = relacts + phases['setUp']
        else:
            phases['tearDown'] = phases['tearDown'] + relacts
        for g in rel:
            open_tags.remove(g)
        for ph, a in starts:
            if a['hold'] and not a.pop('_released_same_test', False):
                open_tags.append(a['tag'])
                if a['api'] == 'threading':
                    renamable.add(a['tag'])
                elif not a.get('register'):
                    raw_unregistered.add(a['tag'])
        t['acts'] = {k: v for k, v in phases.items() if v}
        tests.append(t)
    spec = {'layers': [], 'modules': [{'name': 'a', 'tree': {'t': 's', 'ch': [
        {'t': 'c', 'name': 'TC1', 'tests': tests}]}}]}
    opts = {'ignore_threads': draw(st.sampled_from(IGNORE)), 'verbose': draw(st.integers(0, 2)),
            'buffer': draw(st.sampled_from([False, False, True]))}
    return {'spec': spec, 'opts': opts}


def _iter_tests(spec):
    from .. import gen
    return gen.iter_tests(spec)


def oracle(spec, opts, run):
    viol = common.run_escaped(run, 'C19')
    if viol:
        return viol, [], False
    labels = []
    # ground truth from the world's own record
    started = {}        # tag -> dict(test, ident, name, api, hold)
    released_in = {}    # tag -> test in which it was released
    cur = None
    order = []
    renamed = late_reg = False
    for e in run.trace:
        if e['ev'] == 'T' and e['ph'] == 'setUp':
            cur = e['s']
            order.append(cur)
        elif e['ev'] == 'thread_start':
            started[e['tag']] = dict(test=cur, ident=e['ident'], name=e['name'], api=e['api'], hold=e['hold'])
        elif e['ev'] == 'thread_released':
            released_in[e['tag']] = cur
        elif e['ev'] == 'thread_registered':
            late_reg = True
        elif e['ev'] == 'thread_renamed':
            # (generated in tests after the one that started the thread: the thread existed before, whatever it is called)
            renamed = True
            if started.get(e['tag'], {}).get('test') == cur:
                started[e['tag']]['name'] = e['name']
    pats = opts.get('ignore_threads') or []
    expected = {}       # test str -> set of idents
    reuse = False
    for tag, th in started.items():
        if not th['hold']:
            continue
        if released_in.get(tag) == th['test']:
            continue
        # (a raw thread known to ``threading`` carries the name threading gave it, else the runner calls it Dummy-<ident>)
        name = th['name'] if (th['api'] == 'threading' or th['name']) else 'Dummy-%s' % th['ident']
        if any(re.match(p, name) for p in pats):
            labels.append('ignored-leak')
            continue
        expected.setdefault(th['test'], set()).add(th['ident'])
        th['leaks'] = True
    # ident reuse: a leaked thread got the ident of a thread that existed at the start of its test and ended in it
    for tag, th in started.items():
        for tag2, th2 in started.items():
            if tag2 != tag and th2['ident'] == th['ident'] and th2['hold'] and th['hold'] and \
                    released_in.get(tag2) == th['test'] and th2['test'] != th['test']:
                reuse = True
                raw = th['api'] == '_thread' or th2['api'] == '_thread'
                th['reused_ident_of_earlier_leak'] = 'raw-thread-involved' if raw else 'thread-objects'
    p = parse.parse(run.out)
    got = {}
    for test_line, thr_line in p.thread_reports:
        ids = set(int(m.group(2)) for m in RE_THREAD.finditer(thr_line)) | \
            set(int(m.group(1)) for m in RE_DUMMY.finditer(thr_line))
        if test_line in got:
            viol.append(('C19/reported-twice', 'two thread reports for test %s' % test_line))
        got.setdefault(test_line, set()).update(ids)
    for test in set(expected) | set(got):
        e, g = expected.get(test, set()), got.get(test, set())
        for ident in e - g:
            th = next(t for t in started.values() if t['ident'] == ident and t['test'] == test and t.get('leaks'))
            kind = 'ident-reuse/%s' % th['reused_ident_of_earlier_leak'] if th.get('reused_ident_of_earlier_leak') else 'plain'
            viol.append(('C19/missed-leak/%s' % kind,
                         'test %s started thread %s (%s, ident %d) which is still alive at its end, but it is not reported'
                         % (test, th['name'], th['api'], ident)))
        for ident in g - e:
            viol.append(('C19/false-report', 'test %s: thread ident %d reported but the world did not leak it there '
                         '(expected %s)' % (test, ident, sorted(e))))
    if reuse:
        labels.append('ident-reuse')
    if renamed:
        labels.append('earlier-thread-renamed')
    if late_reg:
        labels.append('raw-thread-registers-in-later-test')
    if any(e['ev'] == 'T' and e['ph'] == 'setUp' for e in run.trace) and any(
            a[1].get('falsy') for _, t in _iter_tests(spec) for acts in (t.get('acts') or {}).values() for a in acts
            if a[0] == 'thread'):
        labels.append('falsy-thread-object')
    nleak_tests = len(expected)
    rel_in_leaking = any(released_in.get(tag) in expected and started[tag]['test'] != released_in.get(tag)
                         for tag in released_in)
    if rel_in_leaking:
        labels.append('release-in-leaking-test')
    if nleak_tests:
        labels.append('leaks')
    return viol, labels, rel_in_leaking or (renamed and bool(pats)) or late_reg


class InProc(Part):
    name = 'inproc'
    examples = {'quick': 3200, 'thorough': 40000}

    def strategy(self, tier):
        return cases()

    def execute(self, case):
        spec = common.with_prefix(case['spec'])
        run = drive.run_inproc(spec, common.args_of(case['opts']))
        viol, labels, nt = oracle(spec, case['opts'], run)
        return Outcome(viol, labels, nt)


class C19(Prop):
    id = 'C19'
    registered = True
    technique = ('Hypothesis-generated histories of tests with thread actions (start via threading/_thread, hold or '
                 'join, release / rename / late registration in a later test, ignore patterns); reported thread idents per test '
                 'vs. the world\'s record')
    level_text = ('Sequences of up to 6 tests start threads through threading.Thread or _thread.start_new_thread, named '
                  'or not, which either end before the test ends or block until a later test releases them (the world '
                  'waits until the thread is really gone), under generated --ignore-new-thread patterns; the idents in '
                  'every "left new threads behind" report must equal, per test, the threads started in that test, still '
                  'alive at its end and not ignored - including when an earlier leak is released in a test that leaks.')
    level_note = ('The schedule is owned by the world (deterministic liveness at test boundaries); true races inside '
                  'threadsupport.enumerate() are not explored; only Python 3.12 thread repr formats are parsed.')
    rule = ('Hypothesis histories: 1..6 tests, 0..3 thread starts per test (API, name, hold/join, phase; raw threads with or without a threading._DummyThread entry), releases of '
            'earlier leaks at the beginning or end of later tests, renames of threads left by earlier tests, Thread subclasses '
            'that are false in a boolean context, 12 ignore-pattern sets. Non-trivial = a leak from an '
            'earlier test is released in a test that itself leaks, or an earlier thread is renamed while ignore patterns are in use, or a raw thread left by an earlier test first calls into threading in a later test. Distinct by hash of the case.')
    assumptions = ('a thread counts as ended once it left sys._current_frames() and (for Thread objects) was joined',)
    parts = (InProc(),)


PROP = C19()
