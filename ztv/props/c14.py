"""C14 - discovery loads exactly the matching test modules, once, in sorted order."""
import os
import re
import shutil
import tempfile

from hypothesis import strategies as st

from .. import drive, fstree, model, parse
from ..engine import Outcome, Part, Prop
from . import common

TESTS_PATTERNS = ['^tests_', '^f?tests_', r'tests_q\d+$', '^(tests|checks)_', '^tests', 'tests_']
FILE_PATTERNS = ['^test_', '^test', r'_q\d$', 'other', 'est_q']
DEFAULT_IGNORE = {'.git', '.svn', 'CVS', '{arch}', '.arch-ids', '_darcs'}
IGNORE_FOLDERS = {'.git', 'node_modules', '__pycache__'}


@st.composite
def cases(draw):
    tree = draw(fstree.trees(max_depth=3, unique_stems=True))
    subdirs = [p for p, node in fstree.iter_dirs(tree) if p and all(fstree.identifier(x) for x in p.split(os.sep))]
    roots = ['']
    extra = draw(st.sampled_from(['none', 'none', 'dup', 'nested', 'dup+nested', 'test-path-dup', 'package-path',
                                  'package-path', 'package-path-only']))
    if 'dup' in extra:
        roots.append('')
    if 'nested' in extra and subdirs:
        roots.append(draw(st.sampled_from(subdirs)))
    pkg_roots = []
    if extra == 'package-path' and subdirs:
        # a sub-directory of the tree given once more as "--package-path DIR its.dotted.name": the same files are
        # reached through two search roots that carry different package labels but give them the same module names
        for sd in draw(st.lists(st.sampled_from(subdirs), min_size=1, max_size=2, unique=True)):
            pkg_roots.append(sd)
    elif extra == 'package-path-only' and subdirs:
        # no --path at all: the tree's top directory is on sys.path already (as an installed distribution would be) and
        # only some of its packages are searched, each named by --package-path DIR dotted.name
        roots = []
        for sd in draw(st.lists(st.sampled_from(subdirs), min_size=1, max_size=2, unique=True)):
            pkg_roots.append(sd)
    elif extra in ('package-path', 'package-path-only'):
        extra = 'none'
    if draw(st.booleans()):
        roots.reverse()
    stems = sorted({os.path.splitext(f)[0] for _, node in fstree.iter_dirs(tree) for f in node['files']})
    mods = []
    if (draw(st.integers(0, 2)) == 0 or (pkg_roots and draw(st.booleans()))) and stems:
        words = ['tests_', 'zqpkg', r'\.', '^zqsub', 'test_']
        for sd in pkg_roots:
            # patterns that look at the package part of the dotted name
            parts = sd.split(os.sep)
            words += ['^' + parts[0], re.escape('.'.join(parts)) + r'\.', parts[-1] + r'\.']
        base = st.one_of(st.sampled_from(stems).map(lambda s: re.escape(s) + '$'),
                         st.sampled_from(words))
        mods = draw(st.lists(st.one_of(base, base.map(lambda p: '!' + p)), min_size=1, max_size=2))
    # a symlinked directory whose *name* is not an identifier or is an ignored one: discovery must not go through it
    # (links with ordinary names would give the same file a second dotted name - not generated, see level_note)
    link = None
    if subdirs and draw(st.integers(0, 3)) == 0:
        link = {'at': draw(st.sampled_from([''] + subdirs)), 'to': draw(st.sampled_from(subdirs)),
                'name': draw(st.sampled_from(['zq-fixtures', 'node_modules', '__pycache__', '.git', '1zqlink', 'zq.link',
                                              'CVS']))}
    # --ignore_dir NAME (repeatable) *adds* to the built-in list; the deprecated positional arguments
    # "MODULE [TEST]" add to -m / -t, with "." as the documented placeholder for "no module filter"
    alldirs = sorted({p.split(os.sep)[-1] for p in subdirs})
    ignore = []
    if draw(st.integers(0, 3)) == 0:
        ignore = draw(st.lists(st.sampled_from(alldirs + ['build', 'zqnone']), min_size=1, max_size=2, unique=True))
    positional = []
    if draw(st.integers(0, 3)) == 0:
        pos_mod = draw(st.sampled_from(['.', '.', 'tests_', 'zq'] + [re.escape(s_) + '$' for s_ in stems[:2]]))
        positional = [pos_mod] + draw(st.sampled_from([[], ['.'], ['test']]))
    return {'tree': tree, 'roots': roots, 'mode': extra, 'pkg_roots': pkg_roots, 'link': link,
            'ignore_dir': ignore, 'positional': positional,
            'tests_pattern': draw(st.sampled_from(TESTS_PATTERNS)),
            'file_pattern': draw(st.sampled_from(FILE_PATTERNS)),
            'module': mods,
            # --usecompiled with source files that have (legacy, same-directory) bytecode beside them: still one module each
            'usecompiled': draw(st.integers(0, 4)) == 0,
            'order_seeds': [draw(st.integers(0, 10 ** 6)), draw(st.integers(0, 10 ** 6))],
            'create_seed': draw(st.integers(0, 10 ** 6))}


def expected_files(case, base):
    """(ordered list of discovered files, reasons for exclusion) - written from the statement"""
    tests_pat = re.compile(case['tests_pattern']).search
    file_pat = re.compile(case['file_pattern']).search
    tree = case['tree']
    nodes = {p: n for p, n in fstree.iter_dirs(tree)}
    excluded = {}
    found = []
    seen = set()
    roots_abs = [os.path.join(base, r) if r else base for r in case['roots']]
    # (a --package-path root names its files exactly as the enclosing --path root does, so it adds no new name)

    def module_name(path):
        # with nested roots a file has one dotted name per root that contains it; --module accepts the file
        # when any of them is accepted (the longest root is tried first)
        names = [path[len(r) + 1:][:-3].replace(os.sep, '.')
                 for r in sorted(set(roots_abs), key=len, reverse=True) if path.startswith(r + os.sep)]
        if not names:     # only reached through --package-path roots: DIR's files are named dotted.name.<relative>
            names = [path[len(base) + 1:][:-3].replace(os.sep, '.')]
        return names

    def walk(rel):
        node = nodes[rel]
        absdir = os.path.join(base, rel) if rel else base
        dname = os.path.basename(absdir)
        cands = []
        for f in node['files'] + (['__init__.py'] if node['init'] else []):
            if not f.endswith('.py'):
                excluded.setdefault('not-py', []).append(f)
                continue
            stem = f[:-3]
            if tests_pat(stem):
                cands.append(f)
            elif tests_pat(dname) and node['init'] and file_pat(stem):
                cands.append(f)
            else:
                excluded.setdefault('no-pattern', []).append(f)
        for f in sorted(cands):
            yield os.path.join(absdir, f)
        for d in sorted(node['dirs'], key=lambda d: d['name']):
            nm = d['name']
            if not fstree.identifier(nm):
                excluded.setdefault('non-identifier-dir', []).append(nm)
                continue
            if nm in DEFAULT_IGNORE or nm in IGNORE_FOLDERS or nm in (case.get('ignore_dir') or ()):
                excluded.setdefault('ignored-dir', []).append(nm)
                continue
            yield from walk(os.path.join(rel, nm) if rel else nm)

    for r in list(case['roots']) + list(case.get('pkg_roots') or ()):
        for f in walk(r):
            if f in seen:
                excluded.setdefault('duplicate-root', []).append(f)
                continue
            seen.add(f)
            found.append(f)
    out = []
    module_pats = list(case['module'])
    pos = case.get('positional') or []
    if pos and pos[0] != '.':
        module_pats.append(pos[0])
    for f in found:
        if module_pats and not any(model.accepts(module_pats, nm) for nm in module_name(f)):
            excluded.setdefault('module-filter', []).append(f)
            continue
        out.append(f)
    return out, excluded, module_name


class Discover(Part):
    name = 'discover'
    examples = {'quick': 4800, 'thorough': 60000}

    def strategy(self, tier):
        return cases()

    def execute(self, case):
        tmp = tempfile.mkdtemp(prefix='ztv-c14-', dir=drive.tmp_root())
        base = os.path.join(os.path.realpath(tmp), 'r')
        viol = []
        labels = []
        try:
            fstree.write_tree(case['tree'], base, case['create_seed'])
            link = case.get('link')
            if link:
                at = os.path.join(base, link['at']) if link['at'] else base
                to = os.path.join(base, link['to'])
                lp = os.path.join(at, link['name'])
                if not (at == to or at.startswith(to + os.sep)) and not os.path.lexists(lp):
                    os.symlink(to, lp)
                    labels.append('symlink-with-excluded-name')
            want, excluded, module_name = expected_files(case, base)
            args = ['--tests-pattern', case['tests_pattern'], '--test-file-pattern', case['file_pattern'],
                    '--list-tests']
            roots = [os.path.join(base, r) if r else base for r in case['roots']]
            for k, r in enumerate(roots):
                if case['mode'] == 'test-path-dup' and k > 0:
                    args += ['--test-path', r]
                else:
                    args += ['--path', r]
            for sd in case.get('pkg_roots') or ():
                args += ['--package-path', os.path.join(base, sd), sd.replace(os.sep, '.')]
            for m in case['module']:
                args += ['-m', m]
            for nm in case.get('ignore_dir') or ():
                args += ['--ignore_dir', nm]
                labels.append('--ignore_dir')
            has_bytecode = any(f.endswith(('.pyc', '.pyo')) for _, n in fstree.iter_dirs(case['tree']) for f in n['files'])
            if case.get('usecompiled') and not has_bytecode:
                import py_compile
                for f in want:
                    py_compile.compile(f, cfile=f + 'c', doraise=True)
                args += ['--usecompiled']
                labels.append('--usecompiled+bytecode-beside-source')
            if case.get('positional'):
                args += list(case['positional'])
                labels.append('positional-filters' + (':dot' if case['positional'][0] == '.' else '')
                              + ('+m' if case['module'] else ''))
            orders = []
            for k, seed in enumerate(case['order_seeds']):
                trace = os.path.join(tmp, 'trace%d.jsonl' % k)
                import sys
                if not case['roots']:
                    sys.path.insert(0, base)      # (run_raw restores sys.path)
                with fstree.ScandirOrder(seed):
                    run = drive.run_raw(args, trace_path=trace, purge_under=base)
                while base in sys.path:
                    sys.path.remove(base)
                viol += common.run_escaped(run, 'C14')
                imported = [e['file'] for e in fstree.read_trace(trace)]
                orders.append(imported)
                if run.exc is not None:
                    break
                if sorted(imported) != sorted(want):
                    extra = sorted(set(imported) - set(want))
                    missing = sorted(set(want) - set(imported))
                    if extra:
                        viol.append(('C14/imported-but-not-matching', 'imported %s which the patterns/filters do not select'
                                     % [x[len(base) + 1:] for x in extra]))
                    if missing:
                        viol.append(('C14/matching-but-not-imported', 'not imported: %s'
                                     % [x[len(base) + 1:] for x in missing]))
                    if len(imported) != len(set(imported)):
                        viol.append(('C14/imported-twice', 'imported %s' % [x[len(base) + 1:] for x in imported]))
                # every module's test listed exactly once (a file yielded twice would list its test twice)
                p = parse.parse(run.out)
                listed = [n for _, names in p.listing for n in names]
                if len(listed) != len(set(listed)) or len(listed) != len(imported):
                    viol.append(('C14/loaded-twice', '%d modules imported but %d tests listed (%d distinct)'
                                 % (len(imported), len(listed), len(set(listed)))))
                # in every mode: the files of one directory are loaded in ascending order of their names
                by_dir = {}
                for f in imported:
                    by_dir.setdefault(os.path.dirname(f), []).append(os.path.basename(f))
                for d_, fs in by_dir.items():
                    if fs != sorted(fs) and len(fs) == len(set(fs)):
                        viol.append(('C14/not-sorted', 'files of directory %s loaded in the order %s'
                                     % (d_[len(base) + 1:] or '.', fs)))
                        break
                if len(case['roots']) == 1 and not case.get('pkg_roots') and imported != want and sorted(imported) == sorted(want):
                    viol.append(('C14/not-sorted', 'import order %s, sorted walk order %s'
                                 % ([x[len(base) + 1:] for x in imported], [x[len(base) + 1:] for x in want])))
            if len(orders) == 2 and orders[0] != orders[1]:
                viol.append(('C14/enumeration-order-dependent', 'scandir order %d gives %s, order %d gives %s'
                             % (case['order_seeds'][0], [x[len(base) + 1:] for x in orders[0]],
                                case['order_seeds'][1], [x[len(base) + 1:] for x in orders[1]])))
        finally:
            fstree.purge_modules_under(base)
            shutil.rmtree(tmp, ignore_errors=True)
        rules = [k for k in excluded if k in ('no-pattern', 'non-identifier-dir', 'ignored-dir', 'module-filter', 'not-py')]
        for k in excluded:
            labels.append('excluded:' + k)
        labels.append('roots:' + case['mode'])
        overlap = len(case['roots']) + len(case.get('pkg_roots') or ()) >= 2
        return Outcome(viol, labels, len(rules) >= 2 and overlap and len(want) >= 1)


class C14(Prop):
    id = 'C14'
    registered = True
    technique = ('Hypothesis-generated directory trees, patterns, overlapping/duplicated roots, -m filters and directory '
                 'enumeration orders (wrapped os.scandir + creation order); import log of every module vs. a reference predicate')
    level_text = ('Generated trees (identifier / non-identifier / ignored directory names, packages with and without '
                  '__init__.py, look-alike files) are discovered through the real Runner with generated --tests-pattern, '
                  '--test-file-pattern, duplicated/nested --path/--test-path roots and -m filters under two different '
                  'directory enumeration orders; every module logs its own import, and the imported set must equal the '
                  'reference predicate, each once, in an order that is identical for both enumeration orders (and equals '
                  'the sorted walk for a single root).')
    level_note = ('File stems are unique per tree so that every discovered file has a dotted name that resolves to it '
                  '(a precondition of Python\'s import system); ASCII names; symlinked directories only with names discovery must not follow (a followed link would give a file a '
                  'second dotted name); -s/--package not generated here (C03 does).')
    rule = ('Hypothesis trees (depth <=3, 0..4 files and 0..3 sub-directories per directory from identifier/odd/ignored '
            'name pools), 6 tests-patterns x 5 file-patterns, root modes none/dup/nested/dup+nested/test-path-dup, '
            'optional -m patterns, --ignore_dir names, deprecated positional MODULE [TEST] filters (incl. the "." placeholder), two scandir permutations + creation permutation. Non-trivial = files excluded by >=2 '
            'different rules AND overlapping roots AND >=1 module discovered.')
    assumptions = ('"sorted by path" is read as: independent of enumeration order, ascending inside a directory, '
                   'sub-directories visited in ascending order after the directory\'s own files',)
    parts = (Discover(),)


PROP = C14()
