"""C13 - buffered output is attributed correctly; std streams are always restored."""
import re

from hypothesis import strategies as st

from .. import drive, gen, model, parse
from ..engine import Outcome, Part, Prop
from . import common

SHOWN = 'shown'      # failing / erroring / unexpectedly succeeding test: output must be shown, attributed
HIDDEN = 'hidden'    # passing, skipped, expected failure: output must never appear


@st.composite
def cases(draw):
    spec = draw(gen.worlds(max_layers=3, min_layers=1, hooks='all', kinds=gen.ALL_KINDS, max_modules=2, depth=1,
                           max_tests=5, weights_good=50, layer_decl=100, max_children=3, excs=gen.SIMPLE_EXCS,
                           sub_skip=True))
    tokens = gen.add_outputs(draw, spec, prob=75)
    # in-test identity probes (meaningful without --buffer)
    for _, t in gen.iter_tests(spec):
        if draw(st.integers(0, 3)) == 0:
            t.setdefault('acts', {}).setdefault('body', []).append(['probe'])
    opts = {'buffer': draw(st.sampled_from([True, True, True, False])), 'verbose': draw(st.integers(0, 3)),
            'repeat': draw(st.sampled_from([1, 1, 2])), 'shuffle': draw(st.one_of(st.none(), st.integers(0, 99)))}
    if not opts['buffer'] and draw(st.booleans()):
        # a layer whose testSetUp installs private streams and whose testTearDown removes them: without --buffer the
        # runner never replaces sys.stdout/sys.stderr, so they must stay in place through the whole test
        L = spec['layers'][draw(st.integers(0, len(spec['layers']) - 1))]
        L.setdefault('acts', {}).setdefault('testSetUp', []).append(['swap', 'save'])
        L['acts'].setdefault('testTearDown', [])[:0] = [['probe_private'], ['swap', 'restore']]
        spec['layer_swaps'] = L['name']
        for _, t in gen.iter_tests(spec):
            t.setdefault('acts', {}).setdefault('tearDown', []).append(['probe_private'])
    # (the XML wrapper sits between the result object and the formatter: captured output must pass through it)
    opts['xml'] = draw(st.sampled_from([False, False, False, True]))
    if opts['buffer']:
        # test fixtures that handle the std streams themselves: "save in setUp, install a private stream, put the saved
        # one back in tearDown" (what the test then writes in between is its own business: no tokens there), or a test
        # that rebinds a stream and never puts it back.  With --buffer the runner still owes the original objects
        # between tests and after the run.
        for _, t in gen.iter_tests(spec):
            r = draw(st.integers(0, 11))
            if r > 1:
                continue
            acts = t.setdefault('acts', {})
            for ph in ('body', 'tearDown') if r == 0 else ('tearDown',):
                for a in acts.get(ph) or ():
                    if a[0] == 'out':
                        for tok in re.findall(r'Tk\d+q', a[2]):
                            tokens.pop(tok, None)
            if r == 0:
                acts['body'] = [a for a in acts.get('body') or () if a[0] != 'out']
                acts['tearDown'] = [['swap', 'restore']] + [a for a in acts.get('tearDown') or () if a[0] != 'out']
                acts.setdefault('setUp', []).append(['swap', 'save'])
                t['fixture'] = 'save-restore'
            else:
                acts['tearDown'] = [a for a in acts.get('tearDown') or () if a[0] != 'out']
                acts.setdefault('body', []).append(['swap', 'leak', draw(st.sampled_from(['o', 'e', 'oe']))])
                t['fixture'] = 'leak'
    if opts['buffer'] and draw(st.integers(0, 3)) == 0:
        # one character split over two tests: what a test wrote through sys.stdout.buffer ends in the middle of a UTF-8
        # sequence (truncated or Latin-1 data), and the next test - a failing one - starts its output with the byte that
        # would complete it.  The completed character belongs to neither test: it must not show up.
        pairs = []
        for m in spec['modules']:
            for node, tests in _cases_of_module(m):
                for a, b in zip(tests, tests[1:]):
                    if a['k'] in ('pass', 'fail', 'error', 'xfail') and b['k'] in ('fail', 'error') and \
                            not a.get('fixture') and not b.get('fixture'):
                        pairs.append((a, b))
        if pairs:
            a, b = pairs[draw(st.integers(0, len(pairs) - 1))]
            stream = draw(st.sampled_from(['ob', 'eb']))
            a.setdefault('acts', {}).setdefault('tearDown', []).append(['out', stream, 'data \xe2\x82'])
            b.setdefault('acts', {}).setdefault('setUp', []).insert(0, ['out', stream, '\xac rest\n'])
            opts['shuffle'] = None
            spec['split_char'] = True
    return {'spec': spec, 'opts': opts, 'tokens': tokens}


def _cases_of_module(m):
    def walk(node):
        if node['t'] == 'c':
            yield node, node['tests']
        for ch in node.get('ch') or ():
            yield from walk(ch)
    yield from walk(m['tree'])


def expectation(t):
    return SHOWN if model.is_bad(t) else HIDDEN


def oracle(spec, opts, tokens, run):
    viol = common.run_escaped(run, 'C13')
    if viol:
        return viol, ['run-aborted']
    labels = []
    out = run.out
    lines = parse._GLUE.sub(lambda m: m.group(1) + '\n', out).split('\n')
    # stream identity at every probe
    for e in run.trace:
        if e['ev'] == 'probe_private' and not e['ok']:
            viol.append(('C13/streams-replaced-without-buffer', 'at %s the private streams a layer installed in its '
                         'testSetUp are no longer sys.stdout/sys.stderr' % e['where']))
            break
        if spec.get('layer_swaps'):
            continue      # (identity with the original objects is the layer's own business in these worlds)
        if e['ev'] == 'L' and e['h'] in ('testSetUp', 'testTearDown') and e['ph'] == 'enter' and 'so' in e:
            if not (e['so'] and e['se']):
                viol.append(('C13/streams-replaced-between-tests/%s' % e['h'],
                             'in %s of layer %s: sys.stdout is original=%s, sys.stderr is original=%s'
                             % (e['h'], e['layer'], e['so'], e['se'])))
                break
        if e['ev'] == 'probe' and not opts.get('buffer'):
            if not (e['so'] and e['se']):
                viol.append(('C13/streams-replaced-without-buffer', 'inside %s: stdout original=%s stderr original=%s'
                             % (e['where'], e['so'], e['se'])))
                break
    st_after = run.state_after or {}
    if not (st_after.get('stdout_is_orig') and st_after.get('stderr_is_orig')):
        viol.append(('C13/streams-not-restored-after-run', 'after the run: %s' % st_after))
    if not opts.get('buffer'):
        return viol, labels + ['no-buffer']
    if spec.get('split_char'):
        labels.append('character-split-over-two-tests')
        if '\u20ac' in out:
            viol.append(('C13/hidden-output-shown/split-character', 'bytes written by one test and bytes written by the next '
                         'one were decoded together: the output shows a character that no test wrote (%r)'
                         % out[max(0, out.index('\u20ac') - 40):out.index('\u20ac') + 20]))
    # attribution
    recs = {(r['module'].replace(spec['mp'] + 't_', ''), r['cls'], r['t']['n']): r for r in model.resolve(spec)}
    headers = []   # (line index, test str it belongs to)
    for i, ln in enumerate(lines):
        m = parse.RE_ERR_IN.match(ln)
        if m:
            headers.append((i, m.group(2)))
    ran_lines = [i for i, ln in enumerate(lines) if parse.RE_RAN.match(ln)]
    tok_re = re.compile(r'Tk\d+q')
    occ = {}
    for i, ln in enumerate(lines):
        for m in tok_re.finditer(ln):
            occ.setdefault(m.group(0), []).append(i)
    repeat = opts.get('repeat', 1)
    for tok, info in tokens.items():
        rec = recs.get((info['module'], info['case'], info['test']))
        if rec is None:
            continue
        t = rec['t']
        if not model.starts(t, rec['skip_class']):
            continue
        # was the action executed at all?  (a phase after an error in setUp never runs)
        exp = expectation(t)
        where = occ.get(tok, [])
        if exp == HIDDEN:
            if where:
                viol.append(('C13/hidden-output-shown/%s/%s' % (t['k'], info['phase']),
                             'token %s written by %s test %s in %s appears in the output (line %d: %r)'
                             % (tok, t['k'], rec['id'], info['phase'], where[0], lines[where[0]][:80])))
            continue
        executed = _phase_runs(t, info['phase'])
        if not executed:
            continue
        if len(where) != repeat:
            viol.append(('C13/failing-output-count/%s/%s' % (t['k'], info['phase']),
                         'token %s written by %s test %s in %s appears %d times, expected %d'
                         % (tok, t['k'], rec['id'], info['phase'], len(where), repeat)))
            continue
        for li in where:
            prev = [h for h in headers if h[0] < li]
            if not prev:
                viol.append(('C13/output-not-attributed', 'token %s of test %s is shown before any report header'
                             % (tok, rec['id'])))
                break
            hl, hname = prev[-1]
            if not hname.startswith(rec['str']):
                viol.append(('C13/output-attributed-to-other-test',
                             'token %s of test %s is shown under the report of %r' % (tok, rec['id'], hname)))
                break
            if any(hl < r < li for r in ran_lines):
                viol.append(('C13/output-not-attributed', 'token %s of test %s is shown after the layer summary'
                             % (tok, rec['id'])))
                break
    return viol, labels


def _phase_runs(t, phase):
    k = t['k']
    if phase == 'setUp':
        return True
    if k in ('error_setup', 'skip_setup'):
        return False
    if k == 'error_sig' and phase in ('body', 'body_end'):
        return False      # the call of the test method itself raises: its body never runs (tearDown still does)
    return True


class InProc(Part):
    name = 'inproc'
    examples = {'quick': 3000, 'thorough': 60000}

    def strategy(self, tier):
        return cases()

    def execute(self, case):
        spec = common.with_prefix(case['spec'])
        opts = dict(case['opts'])
        xml_dir = None
        if opts.get('xml'):
            import tempfile
            xml_dir = tempfile.mkdtemp(prefix='ztv-c13-xml-', dir=drive.tmp_root())
            opts['xml'] = xml_dir
        else:
            opts.pop('xml', None)
        try:
            run = drive.run_inproc(spec, common.args_of(opts))
        finally:
            if xml_dir:
                import shutil
                shutil.rmtree(xml_dir, ignore_errors=True)
        viol, labels = oracle(spec, case['opts'], case['tokens'], run)
        if xml_dir:
            labels.append('xml')
        # non-trivial: a failing test with output adjacent (in spec order) to a passing test with output,
        # or a test with output that has >= 2 result events
        adj = False
        multi = False
        for node, tests in _cases_of(spec):
            for a, b in zip(tests, tests[1:]):
                if a.get('acts') and b.get('acts') and model.is_bad(a) != model.is_bad(b):
                    adj = True
            for t in tests:
                if t.get('acts') and model.n_events(t) >= 2:
                    multi = True
        if adj:
            labels.append('fail-next-to-pass-with-output')
        if multi:
            labels.append('multi-event-with-output')
        if case['opts'].get('buffer'):
            labels.append('buffer')
        for _, t in gen.iter_tests(spec):
            if t.get('fixture'):
                labels.append('fixture:%s:%s' % (t['fixture'], 'bad' if model.is_bad(t) else 'good'))
        return Outcome(viol, labels, (adj or multi) and bool(case['opts'].get('buffer')))


@st.composite
def pm_cases(draw):
    """--buffer together with -D / --post-mortem: nothing fails, so the debugger is never entered - and what passing and
    skipped tests write still has to stay hidden"""
    spec = draw(gen.worlds(max_layers=2, min_layers=1, hooks='all', kinds=('pass', 'pass', 'skip_body', 'skip_setup'),
                           max_modules=2, depth=1, max_tests=4, weights_good=100, layer_decl=100, max_children=3))
    tokens = gen.add_outputs(draw, spec, prob=85)
    order = draw(st.sampled_from([['--buffer', '-D'], ['-D', '--buffer'], ['--buffer', '--post-mortem']]))
    return {'spec': spec, 'tokens': tokens, 'order': order, 'verbose': draw(st.integers(0, 2)),
            'in_defaults': draw(st.sampled_from([None, None, '--buffer', '-D']))}


class PostMortem(Part):
    name = 'postmortem'
    examples = {'quick': 400, 'thorough': 6000}

    def strategy(self, tier):
        return pm_cases()

    def execute(self, case):
        import io
        spec = common.with_prefix(case['spec'])
        args = [a for a in case['order'] if a != case['in_defaults']] + ['-v'] * case['verbose']
        dflt = [case['in_defaults']] if case['in_defaults'] else []
        run = drive.run_inproc(spec, args, stdin=io.StringIO('c\n' * 50), defaults=dflt)
        viol, labels = oracle(spec, {'buffer': True, 'repeat': 1}, case['tokens'], run)
        return Outcome(viol, labels + ['order:' + ' '.join(case['order'])], bool(case['tokens']))


def _cases_of(spec):
    def walk(node):
        if node['t'] == 'c':
            yield node, node['tests']
        elif node['t'] == 's':
            for ch in node['ch']:
                yield from walk(ch)
    for m in spec['modules']:
        yield from walk(m['tree'])


@st.composite
def procs_cases(draw):
    """--buffer while the layers run in subprocesses (-j N, or resumed after a layer that cannot be torn down): a layer
    subprocess has its sys.stderr joined to its stdout and keeps its real stderr for the report to the parent; the output
    a failing test wrote to either stream still belongs into that test's report, and nowhere else"""
    case = draw(cases().filter(lambda c: c['opts']['buffer']))
    spec, opts = case['spec'], case['opts']
    opts['xml'] = False
    opts['repeat'] = 1
    mode = draw(st.sampled_from(['j2', 'j3', 'resume']))
    if mode == 'resume':
        for L in spec['layers']:
            L.setdefault('faults', {})['tearDown'] = 'NIE'
    else:
        opts['j'] = int(mode[1])
    case['mode'] = mode
    return case


class Procs(Part):
    name = 'procs'
    examples = {'quick': 96, 'thorough': 2000}

    def strategy(self, tier):
        return procs_cases()

    def execute(self, case):
        spec = common.with_prefix(case['spec'])
        opts = dict(case['opts'])
        opts.pop('xml', None)
        run = drive.run_inproc(spec, common.args_of(opts), disk=True)
        viol, labels = oracle(spec, case['opts'], case['tokens'], run)
        from .. import traceana
        nchild = len(traceana.by_pid(run.trace)) - 1
        shown = any(expectation(t) == SHOWN and t.get('acts') for _, t in gen.iter_tests(spec))
        return Outcome(viol, labels + [case['mode'], 'children=%d' % min(nchild, 4)], nchild >= 1 and shown)


class C13(Prop):
    id = 'C13'
    registered = True
    technique = ('Hypothesis-generated test histories with unique output tokens per test/phase/stream; attribution '
                 'oracle over the captured runner output; stream-identity probes between tests and after the run; in-process, '
                 'post-mortem and with layers in subprocesses')
    level_text = ('Histories of tests of every outcome kind, each writing unique tokens to stdout/stderr (text, .buffer '
                  'bytes incl. undecodable ones, with/without newline) in setUp/body/tearDown, are run with and without '
                  '--buffer; tokens of passing/skipped/expected-failure tests must never occur in the output, tokens of '
                  'failing tests exactly once per iteration inside that test\'s own report region; sys.stdout/sys.stderr '
                  'identity is probed in every per-test layer hook, inside tests (without --buffer) and after the run.')
    level_note = ('Only the in-process run is observed (children print to pipes); subunit (which forces --buffer) is not '
                  'installable; Python 3.12 result-event timing (errors reported as they happen).')
    rule = ('Hypothesis worlds: 1..3 layers all with per-test hooks (probe points), 1..2 modules, up to 5 tests per '
            'case of every outcome kind, 75% of the tests write 1..3 unique tokens; --buffer on (3/4) or off, -v 0..3, '
            '--repeat, --shuffle, --xml (1/4), with --buffer 1/6 of the tests use a fixture that saves/restores or leaks the std streams; postmortem part: --buffer with -D over passing/skipped tests. Non-trivial = --buffer AND (a failing and a non-failing test with output are '
            'neighbours, or a test with output reports >=2 results). Distinct by hash of (spec, options).')
    assumptions = ('a token is "attributed" when the nearest preceding report header names its test and no layer '
                   'summary lies in between', 'output written after a test\'s first reported result is still that '
                   'test\'s output')
    parts = (InProc(), PostMortem(), Procs())


PROP = C13()
