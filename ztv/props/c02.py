"""C02 - the verdict is 'failed' exactly when something went wrong, in every mode."""
import copy

from hypothesis import strategies as st

from .. import drive, gen, model, traceana
from ..engine import Outcome, Part, Prop
from . import chan, common

IMPORT_FAILS = ('ImportError', 'ValueError', 'SyntaxError', 'KeyError', 'SystemExit', 'SkipTest', 'AssertionError')


@st.composite
def cases(draw, procs):
    """a world with zero, one or several bad items anywhere + a mode + noise + (procs) child faults"""
    nbad_target = draw(st.sampled_from([0, 0, 1, 1, 1, 2]))
    faults = draw(st.sampled_from([None, None, None, {'setUp': 20}, {'tearDown': 20}])) if nbad_target else None
    nie = draw(st.sampled_from([0, 40, 70])) if procs else draw(st.sampled_from([0, 0, 30]))
    spec = draw(gen.worlds(max_layers=4, min_layers=1 if procs else 0, hooks='layer', faults=faults, nie=nie,
                           kinds=gen.GOOD_KINDS, max_modules=3, depth=1, max_tests=3, layer_decl=85,
                           explicit_unit=True, max_children=3))
    if draw(st.integers(0, 4)) == 0:
        # directed topology (tear-down sweeps that meet a failure and a NotImplementedError, shared failing bases)
        spec = draw(gen.shaped_world(kinds=gen.GOOD_KINDS))
    for L in spec['layers']:
        if draw(st.integers(0, 99)) < 60:
            L['hooks'] = sorted(set(L['hooks']) | {'setUp', 'tearDown'}, key=gen.HOOKS.index)
    if draw(st.integers(0, 3)) == 0:
        # free-text layer names (regular-expression metacharacters, case-only differences, leading zeros)
        from .c10 import TRICKY
        for L, nm in zip(spec['layers'], draw(st.permutations(TRICKY))):
            L['name'] = nm
    tests = [t for _, t in gen.iter_tests(spec)]
    # --- bad items, placed anywhere
    for _ in range(nbad_target):
        what = draw(st.sampled_from(['test', 'test', 'test', 'test', 'import', 'suite']))
        if what == 'test':
            t = tests[draw(st.integers(0, len(tests) - 1))]
            t['k'] = draw(st.sampled_from(gen.BAD_KINDS))
            if t['k'] in ('error', 'error_setup', 'error_teardown', 'error_both', 'fail_teardown', 'cleanup_error',
                          'subtests'):
                t['exc'] = draw(st.sampled_from(gen.SIMPLE_EXCS))
            if t['k'] == 'subtests':
                t['sub'] = draw(st.lists(st.sampled_from([['pass'], ['fail'], ['error']]), min_size=1, max_size=3))
        elif what == 'import':
            spec['modules'].append({'name': 'x%d' % len(spec['modules']), 'fail': draw(st.sampled_from(IMPORT_FAILS)),
                                    'tree': {'t': 's', 'ch': []}})
        else:
            spec['modules'].append({'name': 'y%d' % len(spec['modules']),
                                    'style': draw(st.sampled_from(['bad_suite', 'raising_suite'])),
                                    'tree': {'t': 's', 'ch': []}})
    # (decided early) a console that can only encode ASCII while a lost child wrote non-ASCII text to its stderr: no other
    # noise then, so that nothing non-ASCII has to be printed as a *name*
    want_ascii = procs and draw(st.integers(0, 7)) == 0
    # --- noise from tests (any stream; raw descriptors only inside children so the harness' own fds stay clean)
    nnoise = 0 if want_ascii else draw(st.integers(0, 3))
    for _ in range(nnoise):
        t = tests[draw(st.integers(0, len(tests) - 1))]
        ph = draw(st.sampled_from(['setUp', 'body', 'tearDown']))
        stream = draw(st.sampled_from(['o', 'e', 'p', 'fd1', 'fd2', 'oe', 'fd2']))
        unit, count = draw(chan.noise_units())
        act = ['noise', stream, unit, count]
        if stream in ('fd1', 'fd2', 'oe'):
            act = ['in_child', act]
        elif stream == 'p':
            act = ['out', 'p', unit]
        t.setdefault('acts', {}).setdefault(ph, []).append(act)
    opts = {'verbose': draw(st.sampled_from([0, 0, 1, 2])), 'buffer': draw(st.sampled_from([False, False, True])),
            'repeat': draw(st.sampled_from([1, 1, 1, 2, 3]))}
    if opts['repeat'] > 1 and draw(st.booleans()):
        # a test that goes wrong in one iteration only (the trace says in which)
        t = tests[draw(st.integers(0, len(tests) - 1))]
        if t['k'] in ('pass', 'xfail'):
            t['k'] = 'pass'
            t.setdefault('acts', {}).setdefault(draw(st.sampled_from(['setUp', 'body', 'tearDown'])), []).append(
                ['flaky', draw(st.integers(1, opts['repeat'])), draw(st.sampled_from(['AssertionError', 'ValueError']))])
    fault = {'kind': 'none'}
    if procs:
        opts['j'] = draw(st.sampled_from([None, 1, 2, 3]))
        fkind = draw(st.sampled_from(['die', 'cut'] if want_ascii else
                                     ['none', 'none', 'die', 'die', 'cut', 'spawn', 'child_import']))
        fault = {'kind': fkind}
        lnames = [L['name'] for L in spec['layers']]
        tgt = draw(st.sampled_from(lnames))
        fault['layer'] = tgt
        if fkind == 'die':
            how = draw(st.sampled_from(chan.HOWS))
            act = ['in_child', ['die', how], tgt]
            point = draw(st.sampled_from(['import', 'layer_setUp', 'layer_tearDown', 'test', 'test']))
            li = lnames.index(tgt)
            if point == 'import':
                spec['modules'][0].setdefault('acts', []).append(act)
            elif point.startswith('layer'):
                spec['layers'][li].setdefault('acts', {}).setdefault(point[6:], []).append(act)
            else:
                t = tests[draw(st.integers(0, len(tests) - 1))]
                t.setdefault('acts', {}).setdefault(draw(st.sampled_from(['setUp', 'body', 'tearDown'])), []).append(
                    ['in_child', ['die', how]])
            fault.update(how=how, point=point)
        elif fkind == 'cut':
            spec['child_stderr'] = {'cut': draw(chan.cut_strategy()), 'how': draw(st.sampled_from(chan.HOWS)),
                                    'layer': tgt}
        elif fkind == 'spawn':
            fault['way'] = draw(st.sampled_from(['cwd', 'script']))
        elif fkind == 'child_import':
            # a module that can be imported by the parent but not by a layer subprocess
            m = spec['modules'][draw(st.integers(0, len(spec['modules']) - 1))]
            m.setdefault('acts', []).append(['in_child', ['raise', draw(st.sampled_from(IMPORT_FAILS[:4]))]])
    spec.setdefault('child_stderr', {'layer': '\0none'})
    # --- selection options: what went wrong is read from the trace (tests that really ran, hooks that really raised), so
    # any filter may be combined; a module that cannot be imported counts whatever the test/level/layer filters say
    if fault['kind'] != 'spawn' and draw(st.integers(0, 2)) == 0:
        tnames = sorted({t['n'] for t in tests})
        sel = draw(st.sampled_from(['test', 'test', 'only_level', 'at_level', 'layer', 'unit']))
        if sel == 'test':
            base = st.sampled_from(tnames + ['test_[a-c]$', 'TC1', 'zzz'])
            opts['test'] = draw(st.lists(st.one_of(base, base.map(lambda p: '!' + p)), min_size=1, max_size=2))
        elif sel == 'only_level':
            opts['only_level'] = draw(st.sampled_from([1, 2]))
        elif sel == 'at_level':
            opts['at_level'] = draw(st.sampled_from([0, 1, 3]))
        elif sel == 'layer':
            opts['layer'] = draw(common.layer_pattern_strategy([L['name'] for L in spec['layers']] + ['UnitTests']))
        else:
            opts['unit' if draw(st.booleans()) else 'non_unit'] = True
    driver = draw(st.sampled_from(['inproc', 'inproc', 'cli']))
    if fault['kind'] == 'spawn':
        driver = 'inproc'
    if want_ascii:
        driver = 'cli'
        opts['verbose'] = max(1, opts['verbose'])
        spec['modules'][0].setdefault('acts', []).append(
            ['in_child', ['noise', 'fd2', 'd\xc3\xa9marrage du service: \xe2\x9c\x93\n', 1]])
    return {'spec': spec, 'opts': opts, 'fault': fault, 'driver': driver, 'ascii_console': want_ascii}


def run_case(case, spec, timeout=180):
    args = common.args_of(case['opts'])
    fault = case['fault']
    if case['driver'] == 'inproc':
        kw = {}
        if fault['kind'] == 'spawn' and fault['way'] == 'cwd':
            kw['cwd'] = '/nonexistent/ztv-no-such-dir'
        elif fault['kind'] == 'spawn' and fault['way'] == 'script':
            kw['script_parts'] = ['/nonexistent/ztv/no_such_script.py']
        return drive.run_inproc(spec, args, disk=True, use_run_internal=True, **kw)
    with drive.World(spec) as world:
        return world.run(args, timeout=timeout, env={'PYTHONIOENCODING': 'ascii'} if case.get('ascii_console') else None)


def went_wrong(case, spec, w, run):
    """(reasons something went wrong [from the trace and the injected faults], children)"""
    reasons = []
    for e in run.trace:
        if e['ev'] == 'T' and e['ph'] == 'run':
            rec = w.tests.get(e['id'])
            if rec is not None and model.is_bad(rec['t']):
                reasons.append('test %s (%s)' % (rec['t']['n'], rec['t']['k']))
        elif e['ev'] == 'L' and e['ph'] == 'raise' and e['h'] in ('setUp', 'tearDown') and e.get('exc') != 'NIE':
            reasons.append('layer %s.%s raised' % (e['layer'], e['h']))
        elif e['ev'] == 'raise' and e.get('where', '').startswith('M:'):
            reasons.append('import of %s raised in a subprocess' % e['where'][2:])
        elif e['ev'] == 'raise' and e.get('flaky'):
            reasons.append('test raised in one iteration (%s)' % e['where'])
    for m in spec['modules']:
        if m.get('fail') or m.get('style') in ('bad_suite', 'raising_suite'):
            reasons.append('module %s cannot be imported' % m['name'])
    kids = chan.children(run)
    undecided = False
    for c in kids.values():
        if c.died is not None:
            reasons.append('subprocess for %s died (%s at %s)' % (c.layer, c.died[0], c.died[1]))
        elif c.report is None:
            reasons.append('subprocess for %s never reported' % c.layer)
        elif not c.complete:
            if c.only_newline_missing:
                undecided = True
            else:
                reasons.append('report of %s cut after %d of %d bytes' % (c.layer, c.cut, len(c.report)))
    return reasons, kids, undecided


def layers_left_for_subprocesses(case, spec, w, run):
    """layers (full names) the parent had to hand to subprocesses: all of them with -j N>1, else those not yet dealt
    with when a tear-down in the parent raised NotImplementedError"""
    with_tests = {rec['layer_name'] for rec in w.tests.values()}
    if (case['opts'].get('j') or 1) > 1:
        return with_tests
    main = [e for e in run.trace if e['pid'] == run.main_pid]
    if not any(e['ev'] == 'L' and e['ph'] == 'raise' and e.get('exc') == 'NIE' for e in main):
        return set()
    done = set()
    failed_setups = {w.idx[e['layer']] for e in main if e['ev'] == 'L' and e['h'] == 'setUp' and e['ph'] == 'raise'
                     and e['layer'] in w.idx}
    for e in main:
        if e['ev'] == 'T' and e['ph'] == 'run' and e['id'] in w.tests:
            done.add(w.tests[e['id']]['layer_name'])
    for ln in with_tests:
        i = w.full.get(ln)
        if i is not None and i != model.UNIT and (w.clo(i) & failed_setups):
            done.add(ln)
    return with_tests - done


def oracle(case, spec, run):
    w = traceana.World(spec)
    labels = [case['driver'], 'v%d' % case['opts']['verbose'], 'fault:' + case['fault']['kind']]
    for k in ('test', 'only_level', 'at_level', 'layer', 'unit', 'non_unit'):
        if case['opts'].get(k) not in (None, False, []):
            labels.append('filter:' + k)
    if case['opts'].get('j'):
        labels.append('j%d' % case['opts']['j'])
    if case['opts'].get('repeat', 1) > 1:
        labels.append('repeat')
    if case.get('ascii_console'):
        labels.append('ascii-only-console')
    viol = []
    if case['driver'] == 'inproc':
        viol += common.run_escaped(run, 'C02')
        if run.exc is not None:
            return Outcome(viol, labels, False)
        verdict = bool(run.failed)
        if run.failed not in (True, False):
            viol.append(('C02/verdict-not-boolean', 'run_internal returned %r' % (run.failed,)))
    else:
        if run.timeout:
            return Outcome([('C02/hang', 'the run did not end')], labels, False)
        if run.exit not in (0, 1):
            viol.append(('C02/exit-status', 'exit status %r; stderr: %s' % (run.exit, run.err[-300:])))
            return Outcome(viol, labels, False)
        verdict = bool(run.exit)
    reasons, kids, undecided = went_wrong(case, spec, w, run)
    if case['fault']['kind'] == 'spawn':
        left = layers_left_for_subprocesses(case, spec, w, run)
        if left:
            reasons.append('subprocesses for %d layer(s) could not be started (%s)' % (len(left), case['fault']['way']))
            labels.append('spawn-failed')
    expected = bool(reasons)
    if kids:
        labels.append('children')
    if any('subprocess' in r or 'report of' in r for r in reasons):
        labels.append('child-fault')
    bad_in_child = any(model.is_bad(w.tests[t]['t']) for c in kids.values() for t in c.tests if t in w.tests)
    if bad_in_child:
        labels.append('bad-test-in-child')
    noise = any(c.pre or c.post for c in kids.values())
    if noise:
        labels.append('channel-noise')
    if any(c.header_like_noise for c in kids.values()):
        labels.append('header-like-noise')
    labels.append('expected-failed' if expected else 'expected-passed')
    if verdict != expected and not (undecided and not expected):
        # one of the recorded protocol findings?  only if the input has the recorded shape and the verdict is exactly
        # what a reader of the documented report protocol arrives at
        known = None
        shapes = []
        for c in kids.values():
            if c.header_like_noise:
                shapes.append('noise-line-shaped-like-header')
            elif c.unterminated_noise:
                shapes.append('unterminated-noise-before-report')
            elif c.cut_inside_last_line:
                shapes.append('cut-inside-last-line')
        if shapes:
            pred = False
            for e in run.trace:
                if e['pid'] == run.main_pid:
                    if e['ev'] == 'T' and e['ph'] == 'run' and e['id'] in w.tests and model.is_bad(w.tests[e['id']]['t']):
                        pred = True
                    if e['ev'] == 'L' and e['ph'] == 'raise' and e.get('exc') != 'NIE' and e['h'] in ('setUp', 'tearDown'):
                        pred = True
                    if e['ev'] == 'raise' and e.get('flaky'):
                        pred = True
            if any(m.get('fail') or m.get('style') in ('bad_suite', 'raising_suite') for m in spec['modules']):
                pred = True
            for c in kids.values():
                sent = c.pre + (c.report or b'')[:c.cut if c.cut is not None else None] + c.post
                r = chan.reference_reader(sent)
                if r is None or sum(r[1].values()) + sum(r[2].values()) > 0:
                    pred = True
            if pred == verdict:
                known = sorted(shapes)[0]
        direction = 'false-pass' if expected else 'false-fail'
        if known:
            viol.append(('C02/%s/%s' % (direction, known), 'verdict %s although %s' % (
                'passed' if not verdict else 'failed', '; '.join(reasons[:3]) or 'nothing went wrong')))
        else:
            cls = _classify(reasons)
            viol.append(('C02/%s/%s' % (direction, cls), 'verdict %s (%s, %s) although %s' % (
                'passed' if not verdict else 'failed', case['driver'], common.args_of(case['opts']),
                '; '.join(reasons[:3]) or 'nothing went wrong')))
    nontrivial = bool(kids and (bad_in_child or noise or 'child-fault' in labels)) or 'spawn-failed' in labels
    return Outcome(viol, labels, nontrivial)


def _classify(reasons):
    if not reasons:
        return 'nothing-wrong'
    r = reasons[0]
    for key, cls in (('died', 'child-died'), ('never reported', 'child-no-report'), ('cut after', 'report-cut'),
                     ('could not be started', 'spawn-failure'), ('in a subprocess', 'import-failed-in-child'),
                     ('cannot be imported', 'import-failure'), ('layer ', 'layer-hook'),
                     ('in one iteration', 'bad-test-in-one-iteration'), ('test ', 'bad-test')):
        if key in r:
            return cls
    return 'other'


class Seq(Part):
    """no -j, no injected child faults: in-process run_internal / CLI; children only after NotImplementedError"""
    name = 'plain'
    examples = {'quick': 800, 'thorough': 15000}

    def strategy(self, tier):
        return cases(procs=False)

    def execute(self, case):
        spec = common.with_prefix(case['spec'])
        run = run_case(case, spec)
        return oracle(case, spec, run)


class Procs(Part):
    name = 'procs'
    examples = {'quick': 640, 'thorough': 10000}
    shrink_cap = {'quick': 60, 'thorough': 300}

    def strategy(self, tier):
        return cases(procs=True)

    def execute(self, case):
        spec = common.with_prefix(case['spec'])
        run = run_case(case, spec)
        out = oracle(case, spec, run)
        # metamorphic: the same world without the noise has the same verdict (when no fault was injected)
        return out


class C02(Prop):
    id = 'C02'
    registered = True
    technique = ('Hypothesis-generated worlds with 0..2 bad items anywhere (test outcome kinds, failing imports, layer hooks) '
                 'x mode (run_internal, CLI exit status, resumed layers, -j 1..3) x noise on every stream x child faults '
                 '(death, cut report, spawn failure, import failing only in the child); two-directional oracle: verdict '
                 '== "the trace or the injected fault shows something went wrong"')
    level_text = ('Worlds (0..4 layers, 1..4 modules) get zero, one or several bad items placed anywhere: a test of any bad '
                  'outcome kind, a module that raises on import / has a bad test_suite, a layer setUp or tearDown that '
                  'raises; NotImplementedError tear-downs are the non-error control. Each is run through run_internal '
                  '(return value) or the CLI (exit status), sequentially, with layers resumed in subprocesses and with '
                  '-j 1..3, at -v 0..2, with tests writing noise (incl. header-shaped lines) to stdout, sys.stderr, fd 1, '
                  'fd 2, sys.__stderr__, and with child faults: death at import / layer setUp / test phase / layer '
                  'tearDown by exit 0, exit 3, SIGKILL, SIGSEGV; report cut at a generated offset; spawn failure; import '
                  'failing only inside the child. The verdict must be "failed" exactly when the trace or the injected '
                  'fault shows that something went wrong.')
    level_note = ('What went wrong is read from the world\'s trace (which tests ran, which hooks raised, which child died '
                  'where, how much of each report got out), never from the runner\'s counters. Per-test layer hooks that '
                  'raise are C18\'s. A report lacking only its final newline may be read either way.')
    rule = ('Hypothesis worlds x mode x noise x child faults x (1/3) one selection option (-t, --only-level, --at-level, --layer, -u/-f). Non-trivial = layer subprocesses were involved and (a bad test ran in a child, or noise reached a report pipe, '
            'or a child fault was injected), or a spawn failure. Distinct by hash of the case.')
    assumptions = ('every generated module is discovered (tests pattern matches all of them)',)
    parts = (Seq(), Procs())

    def selftest(self):
        from .c12 import validate_outcome_table
        validate_outcome_table()


PROP = C02()
