"""C07 - subprocess result channel: nothing lost, nothing partial trusted, no hang."""
import re
from collections import Counter

from hypothesis import strategies as st

from .. import drive, model, parse, traceana
from ..engine import HarnessError, Outcome, Part, Prop
from . import chan, common

PARENT_LAYER, TARGET_LAYER = 'LA', 'LB'

NAME_ALPHABET = st.characters(blacklist_categories=('Cs',))


@st.composite
def test_names(draw):
    """spelling of a failing test's id as its __str__ gives it"""
    kind = draw(st.sampled_from(['default', 'default', 'text', 'breaks', 'blanks', 'long', 'headerish', 'unicode']))
    if kind == 'default':
        return None
    if kind == 'text':
        return draw(st.text(alphabet=NAME_ALPHABET, max_size=30))
    if kind == 'breaks':
        parts = draw(st.lists(st.text(alphabet='abcXYZ_.()é', min_size=0, max_size=8), min_size=2, max_size=4))
        seps = draw(st.lists(st.sampled_from(['\n', '\r', '\r\n', '\n\n', '\t', '\x0b', '\x0c', '\x1c', '\x85',
                                              ' ']), min_size=len(parts) - 1, max_size=len(parts) - 1))
        out = parts[0]
        for sep, part in zip(seps, parts[1:]):
            out += sep + part
        return out
    if kind == 'blanks':
        return draw(st.sampled_from(['  lead', 'trail   ', ' \t both \t ', '', ' ', '\n', 'a  b', '\xa0nbsp\xa0']))
    if kind == 'long':
        return draw(st.sampled_from(['L', 'test_é ']))* draw(st.sampled_from([1000, 5000, 10240]))
    if kind == 'headerish':
        return draw(st.sampled_from(['1 0 0', '0 0 0', '12 3 4 5', ' 7 0 0 ', '0', '3 1']))
    return draw(st.text(alphabet=st.characters(min_codepoint=0x80, blacklist_categories=('Cs',)), min_size=1,
                        max_size=12))


@st.composite
def target_tests(draw, max_bad):
    """tests of the layer that runs in the child"""
    nbad = draw(st.one_of(st.integers(0, 3), st.integers(0, max_bad)))
    npass = draw(st.integers(0, 3))
    # a report of more than a megabyte: a dozen failing tests whose ids carry their (large) parameters
    bulk = max_bad >= 12 and draw(st.integers(0, 49)) == 0
    if bulk:
        nbad = 12
    tests = []
    for i in range(nbad):
        k = draw(st.sampled_from(['fail', 'error', 'fail', 'error', 'error_both', 'uxsuccess', 'fail_teardown',
                                  'subtests']))
        t = {'n': 'test_b%04d' % i, 'k': k}
        if k == 'subtests':
            # several failing subtests in one test: a report may announce more failures than tests
            t['sub'] = draw(st.lists(st.sampled_from([['fail'], ['fail'], ['error'], ['pass']]), min_size=1, max_size=5))
            t['exc'] = 'ValueError'
        if k in ('error', 'error_both', 'fail_teardown'):
            t['exc'] = 'ValueError'
        nm = draw(test_names()) if (i < 12 and k != 'subtests') else None
        if nm is not None and not re.search('.', nm):
            nm = 'x' + nm       # (the default --test filter '.' only selects names with a non-newline character)
        if bulk and k != 'subtests':
            nm = 'B%02d ' % i + 'param=' + 'L' * 140000
        if nm is not None:
            t['str'] = nm
        tests.append(t)
    for i in range(npass):
        tests.append({'n': 'test_p%d' % i, 'k': draw(st.sampled_from(['pass', 'pass', 'skip_body', 'xfail']))})
    if not tests:
        tests.append({'n': 'test_p0', 'k': 'pass'})
    order = draw(st.permutations(range(len(tests)))) if len(tests) <= 12 else range(len(tests))
    return [tests[i] for i in order]


@st.composite
def cases(draw, tier='quick', driver=None, big=False):
    mode = draw(st.sampled_from(['resume', 'resume', 'j2', 'j1']))
    max_bad = {'quick': 60, 'thorough': 2000}[tier] if not big else 20
    tests = draw(target_tests(max_bad))
    layers = [
        {'name': PARENT_LAYER, 'kind': 'class', 'bases': [], 'hooks': ['setUp', 'tearDown']},
        {'name': TARGET_LAYER, 'kind': 'class', 'bases': [], 'hooks': ['setUp', 'tearDown']},
    ]
    if mode in ('resume', 'j1'):
        layers[0]['faults'] = {'tearDown': 'NIE'}
    tree = {'t': 's', 'ch': [
        {'t': 'c', 'name': 'TC1', 'layer': 0, 'tests': [{'n': 'test_a', 'k': 'pass'}, {'n': 'test_b', 'k': 'pass'}]},
        {'t': 'c', 'name': 'TC2', 'layer': 1, 'tests': tests},
    ]}
    module = {'name': 'a', 'tree': tree}
    spec = {'layers': layers, 'modules': [module]}
    tgt = TARGET_LAYER
    # ---- noise
    places = []   # callables that attach an action

    def at_import(act):
        module.setdefault('acts', []).append(act)

    def at_layer(hook):
        return lambda act: layers[1].setdefault('acts', {}).setdefault(hook, []).append(act)

    def at_test(i, ph):
        return lambda act: tests[i].setdefault('acts', {}).setdefault(ph, []).append(act)
    places = [at_import, at_layer('setUp'), at_layer('tearDown')]
    for i in range(min(len(tests), 4)):
        for ph in ('setUp', 'body', 'tearDown'):
            places.append(at_test(i, ph))
    # (decided early: with a console that can only encode ASCII no other noise is generated, because header-shaped noise
    # followed by non-ASCII text would make the parent print a non-ASCII "name" - an environment limitation, not C07)
    want_ascii = draw(st.integers(0, 5)) == 0 and not any('str' in t for t in tests)
    nnoise = 0 if want_ascii else draw(st.integers(0, 4))
    has_big = False
    for _ in range(nnoise):
        streams = draw(st.sampled_from([chan.CHANNEL, chan.CHANNEL, chan.STDOUT_SIDE, chan.CHANNEL + chan.STDOUT_SIDE]))
        act = draw(chan.noise_action(streams, big=big, child_only=True, layer=tgt))
        if act[1][3] > 3:
            has_big = True
        draw(st.sampled_from(places))(act)
    if not want_ascii and draw(st.integers(0, 9)) == 0:
        unit, count = draw(chan.noise_units())
        at_import(['in_child', ['atexit_noise', 'fd2', unit, count], tgt])
    # ---- fault
    fkind = draw(st.sampled_from(['die', 'cut'] if want_ascii else ['none', 'none', 'die', 'die', 'cut', 'cut', 'cut', 'spawn']))
    fault = {'kind': fkind}
    if fkind == 'die':
        how = draw(st.sampled_from(chan.HOWS))
        point = draw(st.sampled_from(['import', 'layer_setUp', 'test', 'test', 'layer_tearDown']))
        if draw(st.integers(0, 3)) == 0:
            # the child is ended by an exception nothing in the runner absorbs: KeyboardInterrupt (SIGINT) anywhere
            # in the test phase, SystemExit out of a layer hook (inside a test unittest records it as an error, at import
            # time it is an import failure: not deaths)
            point = draw(st.sampled_from(['layer_setUp', 'test', 'test', 'layer_tearDown']))
            how = 'kbdint' if point == 'test' else draw(st.sampled_from(['kbdint', 'sysexit0', 'sysexit3']))
        act = ['in_child', ['die', how], tgt]
        if point == 'import':
            at_import(act)
        elif point == 'layer_setUp':
            at_layer('setUp')(act)
        elif point == 'layer_tearDown':
            at_layer('tearDown')(act)
        else:
            i = draw(st.integers(0, min(len(tests), 4) - 1))
            ph = draw(st.sampled_from(['setUp', 'body', 'tearDown']))
            at_test(i, ph)(act)
            point = 'test:' + ph
        fault.update(how=how, point=point)
    elif fkind == 'cut':
        spec['child_stderr'] = {'cut': draw(chan.cut_strategy()), 'how': draw(st.sampled_from(chan.HOWS)),
                                'layer': tgt}
        fault.update(spec['child_stderr'])
    elif fkind == 'spawn':
        fault['way'] = draw(st.sampled_from(['cwd', 'script', 'executable']))
    if 'child_stderr' not in spec:
        spec['child_stderr'] = {'layer': tgt}      # observe the report without touching it
    if driver is None:
        driver = 'cli' if want_ascii else draw(st.sampled_from(['inproc', 'inproc', 'cli']))
    if fkind == 'spawn' and fault['way'] != 'executable':
        driver = 'inproc'
    if fkind == 'spawn' and mode == 'j2':
        mode = 'resume'       # (with -j2 the other layer's child could not be started either)
        layers[0]['faults'] = {'tearDown': 'NIE'}
    if fkind == 'spawn' and fault['way'] == 'executable':
        tree['ch'][0]['tests'][1].setdefault('acts', {})['body'] = [['set_executable', '/nonexistent/ztv/python']]
    ascii_console = False
    if want_ascii and driver == 'cli' and fkind in ('die', 'cut'):
        # a console that can only encode ASCII while the lost child wrote non-ASCII text to its stderr: printing the
        # diagnostics may fail, recording the lost layer must not depend on it
        ascii_console = True
        at_import(['in_child', ['noise', 'fd2', 'd\xc3\xa9marrage du service: \xe2\x9c\x93\n', 1], tgt])
    if fkind == 'none' and not want_ascii and draw(st.sampled_from(range(20))) == 19:
        # a test leaves a helper process behind that keeps the child's real stderr open for a while after the child itself
        # has exited: the report is complete, the parent has to wait for the end of the stream and use it
        at_test(0, 'body')(['in_child', ['leave_process', 5.6], tgt])
        spec['left_process'] = True
    if draw(st.integers(0, 5)) == 0:
        # a module that cannot be imported: parent and child both meet it during discovery (it is reported once, by the
        # parent, and is no part of the child's report)
        spec['modules'].append({'name': 'x1', 'fail': draw(st.sampled_from(('ImportError', 'ValueError', 'SyntaxError',
                                                                            'KeyError'))),
                                'tree': {'t': 's', 'ch': []}})
    verbose = draw(st.sampled_from([1, 1, 2, 3, 0]))
    if verbose == 0 and driver != 'inproc':
        verbose = 1       # (without -v the lists are not printed: they are read from the Runner object, in-process only)
    return {'spec': spec, 'mode': mode, 'fault': fault, 'driver': driver, 'verbose': verbose,
            'big': has_big, 'repeat': 1 if spec.get('left_process') else draw(st.sampled_from([1, 1, 1, 1, 2, 3])),
            'ascii_console': ascii_console}


def _ran_ok(total, executed, repeat):
    """under --repeat the tests figure may be the executed count or the per-iteration count (documented either way), and
    each process chooses for itself: only the names are compared then"""
    return repeat > 1 or total == executed


def run_case(case, spec, timeout=120):
    opts = {'verbose': case['verbose'], 'repeat': case.get('repeat', 1)}
    if case['mode'] == 'j2':
        opts['j'] = 2
    elif case['mode'] == 'j1':
        opts['j'] = 1
    args = common.args_of(opts)
    fault = case['fault']
    if case['driver'] == 'inproc':
        kw = {}
        if fault['kind'] == 'spawn' and fault['way'] == 'cwd':
            kw['cwd'] = '/nonexistent/ztv-no-such-dir'
        elif fault['kind'] == 'spawn' and fault['way'] == 'script':
            kw['script_parts'] = ['/nonexistent/ztv/no_such_script.py']
        return drive.run_inproc(spec, args, disk=True, **kw)
    env = {'PYTHONIOENCODING': 'ascii'} if case.get('ascii_console') else None
    with drive.World(spec) as world:
        run = world.run(args, timeout=timeout, env=env)
        if run.timeout:
            # confirm: a hang must reproduce
            run2 = world.run(args, timeout=timeout, env=env)
            if not run2.timeout:
                return run2
        return run


def oracle(case, spec, run):
    viol = []
    w = traceana.World(spec)
    fault = case['fault']
    tfull = model.layer_fullname(spec, 1)
    pfull = model.layer_fullname(spec, 0)
    labels = [case['mode'], case['driver'], 'fault:' + fault['kind']]
    # (modules that cannot be imported are counted among the errors of the Total line and listed under their own heading)
    if spec.get('left_process'):
        labels.append('helper-process-holds-stderr-open')
    nimport = sum(1 for m in spec['modules'] if m.get('fail'))
    if nimport:
        labels.append('import-failure')
    if case.get('ascii_console'):
        labels.append('ascii-only-console')
    if case.get('repeat', 1) > 1:
        labels.append('repeat')
    if run.timeout:
        return [('C07/hang', 'the parent did not terminate within the bound (twice)')], labels, False, None
    if case['driver'] == 'inproc':
        viol += common.run_escaped(run, 'C07')
        if run.exc is not None:
            return viol, labels, False, None
    elif run.exit not in (0, 1):
        viol.append(('C07/parent-crashed', 'exit status %r; stderr tail: %s' % (run.exit, run.err[-300:])))
        return viol, labels, False, None
    kids = chan.children(run)
    target = [c for c in kids.values() if c.layer == tfull]
    others = [c for c in kids.values() if c.layer != tfull]
    spawn_fail = fault['kind'] == 'spawn'
    if len(target) > 1:
        viol.append(('C07/layer-spawned-twice', '%d subprocesses for one layer' % len(target)))
    # ---- what the parent must have recorded
    base_f, base_e = Counter(), Counter()
    base_ran = 0
    for c in others:     # the other layer of a -j2 run, or nothing
        if c.report is not None and c.died is None:
            r, f, e = chan.names_of(w, c.tests, c.subfails)
            base_ran += r
            base_f += f
            base_e += e
        else:
            raise HarnessError('unexpected child without report: %r' % (c.layer,))
    parent_tests = [e['id'] for e in run.trace if e['pid'] == run.main_pid and e['ev'] == 'T' and e['ph'] == 'run']
    r, f, e = chan.names_of(w, parent_tests)
    base_ran += r
    base_f += f
    base_e += e
    tgt = target[0] if target else None
    ERROR = None                      # contribution of a layer whose report must not be used
    if tgt is None:
        if not spawn_fail:
            if any(rec['layer_name'] == tfull for rec in w.tests.values()) and not any(
                    w.tests.get(t, {}).get('layer_name') == tfull for t in parent_tests):
                viol.append(('C07/layer-never-ran', 'no subprocess was seen for layer %s' % tfull))
            return viol, labels + ['target-not-in-child'], False, None
        accept = [ERROR]
        labels.append('spawn:' + fault['way'])
    else:
        full = chan.names_of(w, tgt.tests, tgt.subfails)
        if tgt.complete and tgt.died is None:
            accept = [full]
            labels.append('complete')
        elif tgt.only_newline_missing and tgt.died is None:
            accept = [full, ERROR]
            labels.append('only-newline-missing')
        else:
            accept = [ERROR]
            labels.append('incomplete')
    incomplete = accept == [ERROR]
    # ---- what it did record
    p = parse.parse(run.out)
    if case['verbose'] == 0 and getattr(run, 'runner', None) is not None:
        # what "Tests with failures / errors" would list (it prints str() of the first item of every record)
        p.failures_list = [str(rec[0]) for rec in run.runner.failures]
        p.errors_list = [str(rec[0]) for rec in run.runner.errors]
        labels.append('v0')
    got_f = Counter(chan.norm(n) for n in (p.failures_list or []))
    got_e_all = [chan.norm(n) for n in (p.errors_list or [])]
    layer_entries = [n for n in got_e_all if tfull in n]
    got_e = Counter(n for n in got_e_all if tfull not in n)

    def short(c):
        items = sorted(c.items())
        return [(k[:60].replace(spec['mp'], ''), v) for k, v in items[:6]] + (['... %d more' % (len(items) - 6)]
                                                                               if len(items) > 6 else [])

    def mismatches(contrib):
        """compare the parent's record with: complete processes + this contribution of the target layer"""
        out = []
        if contrib is ERROR:
            if not layer_entries:
                out.append(('no-error-for-dead-child', 'the subprocess for %s %s but no error naming the layer was '
                            'recorded; errors listed: %s' % (TARGET_LAYER, _what(fault, tgt), short(Counter(got_e_all)))))
            if got_f != base_f or got_e != base_e:
                out.append(('partial-data-used', 'the subprocess for %s %s, yet the parent lists failures %s errors %s '
                            '(complete processes reported only %s / %s)' % (TARGET_LAYER, _what(fault, tgt), short(got_f),
                                                                            short(got_e), short(base_f), short(base_e))))
            if p.total is not None and not _ran_ok(p.total[0], base_ran, case.get('repeat', 1)):
                out.append(('partial-count-used', 'the subprocess for %s %s, yet Total counts %d tests (complete '
                            'processes ran %d)' % (TARGET_LAYER, _what(fault, tgt), p.total[0], base_ran)))
        else:
            r, f, e = contrib
            if layer_entries:
                out.append(('error-for-healthy-child', 'the child delivered its full report but the parent recorded %s'
                            % layer_entries[:2]))
            if got_f != base_f + f:
                out.append(('failure-names', 'child failures %s, parent recorded %s' % (short(base_f + f), short(got_f))))
            if got_e != base_e + e:
                out.append(('error-names', 'child errors %s, parent recorded %s' % (short(base_e + e), short(got_e))))
            if p.total is not None and not _ran_ok(p.total[0], base_ran + r, case.get('repeat', 1)):
                out.append(('tests-run', 'processes ran %d tests, parent Total says %d' % (base_ran + r, p.total[0])))
        return out

    mm = min((mismatches(c) for c in accept), key=len)
    known = None
    if mm and tgt is not None:
        # is this one of the recorded findings?  Only if the input has the recorded shape AND the record is exactly
        # what a reader of the documented protocol makes of those bytes (it cannot tell noise from the report).
        if tgt.header_like_noise:
            shape = 'noise-line-shaped-like-header'
        elif tgt.unterminated_noise:
            shape = 'unterminated-noise-before-report'
        elif tgt.cut_inside_last_line:
            shape = 'cut-inside-last-line'
        else:
            shape = None
        if shape:
            sent = tgt.pre + (tgt.report or b'')[:tgt.cut if tgt.cut is not None else None] + tgt.post
            pred = chan.reference_reader(sent)
            if not mismatches(pred if pred is not None else ERROR):
                known = shape
    if known:
        viol.append(('C07/' + known, '%s: %s' % mm[0]))
    else:
        viol += [('C07/' + sig, msg) for sig, msg in mm]
    if p.total is None:
        viol.append(('C07/no-total', 'no Total line in the parent output'))
    elif p.total[1] != sum(got_f.values()) or p.total[2] != len(got_e_all) + nimport:
        viol.append(('C07/total-vs-lists', 'Total %s but %d failures / %d errors listed'
                     % (p.total, sum(got_f.values()), len(got_e_all))))
    exp_f, exp_e = (base_f, base_e) if accept[0] is ERROR else (base_f + accept[0][1], base_e + accept[0][2])
    nontrivial = bool(incomplete or (tgt is not None and (tgt.pre or tgt.post)) or sum(exp_f.values()) +
                      sum(exp_e.values()) >= 50)
    if tgt is not None:
        if tgt.pre:
            labels.append('channel-noise')
        if tgt.header_like_noise:
            labels.append('header-like-noise')
        if tgt.post:
            labels.append('noise-after-report')
        if tgt.died:
            where = tgt.died[1].split(':')
            labels.append('die:' + ('import' if where[0] == 'M' else where[0] + ':' + where[-1]))
            labels.append('how:' + tgt.died[0])
        if tgt.cut is not None and tgt.report is not None and tgt.cut < len(tgt.report):
            labels.append('cut')
    n = sum(exp_f.values()) + sum(exp_e.values())
    labels.append('names:%s' % ('0' if n == 0 else '1-9' if n < 10 else '10-99' if n < 100 else '100+'))
    return viol, labels, nontrivial, known


def _what(fault, tgt):
    if tgt is None:
        return 'could not be started (%s)' % fault.get('way')
    if tgt.died:
        return 'died (%s at %s)' % tgt.died
    if tgt.report is None:
        return 'never wrote its report'
    return 'had its report cut after %d of %d bytes' % (tgt.cut, len(tgt.report))


class Channel(Part):
    name = 'channel'
    examples = {'quick': 800, 'thorough': 12000}
    shrink_cap = {'quick': 60, 'thorough': 300}

    def __init__(self):
        self.tier = 'quick'

    def strategy(self, tier):
        self.tier = tier
        return cases(tier=tier)

    def execute(self, case):
        spec = common.with_prefix(case['spec'])
        run = run_case(case, spec)
        viol, labels, nt, known = oracle(case, spec, run)
        return Outcome(viol, labels, nt)


class Volume(Part):
    """large volumes of noise on both pipes, CLI parent under a wall-clock bound (termination clause)"""
    name = 'volume'
    examples = {'quick': 64, 'thorough': 800}

    def strategy(self, tier):
        return cases(tier='quick', driver='cli', big=True)

    def execute(self, case):
        spec = common.with_prefix(case['spec'])
        run = run_case(case, spec, timeout=150)
        viol, labels, nt, known = oracle(case, spec, run)
        if case.get('big'):
            labels.append('big-noise')
        return Outcome(viol, labels, nt and bool(case.get('big')))


class C07(Prop):
    id = 'C07'
    registered = True
    technique = ('Hypothesis-generated child behaviours (failing-id spellings and counts, noise on every stream incl. '
                 'header-shaped lines, death at every point in 4 ways, report cut at generated byte offsets, spawn '
                 'failures); round-trip oracle: what the child reported (logged by the world) vs. what the parent lists; '
                 'real child runners, in-process and CLI parents')
    level_text = ('A layer is run in a real child runner (resumed after a NotImplementedError tear-down, -j1, -j2) whose '
                  'tests fail/err under generated names (Unicode, embedded line breaks, blanks, 10 kB, header-shaped; '
                  '0..60 names quick, 0..2000 thorough), write generated noise to stdout, sys.stderr, fd 1, fd 2 and '
                  'sys.__stderr__ (incl. header-shaped lines, unterminated text, binary, up to 1 MB), and which may die '
                  'at import / layer setUp / any test phase / layer tearDown by exit 0, exit 3, SIGKILL or SIGSEGV, have '
                  'its report cut after a generated byte offset, or fail to spawn. The parent must terminate; for a '
                  'complete report its listed failure and error names (multisets, whitespace-normalised) and test count '
                  'must equal the child\'s; otherwise it must list an error naming the layer and use none of the '
                  'child\'s names or counts.')
    level_note = ('The child\'s report is observed by a stream object the world installs as sys.stderr before the runner '
                  'saves it; which tests ran in the child comes from the trace, their outcome from the validated outcome '
                  'table. A report that lacks only its final newline may be read either way. Grandchildren holding the '
                  'pipes and children that never end are not generated.')
    rule = ('Non-trivial = a fault was injected (death, cut, spawn failure), or noise reached the report pipe, or >= 50 '
            'names were transported. Distinct by hash of the case.')
    assumptions = ('layers named LA/LB run in that order (checked: cases where the target layer did not run in a child '
                   'are labelled and not counted)',
                   'wall-clock is used only for the termination clause: 120-150 s bound vs. ~1 s, confirmed by a re-run')
    parts = (Channel(), Volume())

    def selftest(self):
        from .c12 import validate_outcome_table
        validate_outcome_table()


PROP = C07()
