"""C05 - per-test layer hooks bracket every test: bases first, mirrored, balanced."""
from hypothesis import strategies as st

from .. import drive, gen, model, traceana
from ..engine import Outcome, Part, Prop
from . import common


@st.composite
def cases(draw):
    spec = draw(gen.worlds(max_layers=5, min_layers=1, hooks='any', kinds=gen.ALL_KINDS, max_modules=2,
                           depth=2, max_tests=4, weights_good=55, layer_decl=80, sub_skip=True))
    # make sure per-test hooks are common
    for L in spec['layers']:
        if draw(st.integers(0, 99)) < 50:
            L['hooks'] = sorted(set(L['hooks']) | {'testSetUp', 'testTearDown'}, key=gen.HOOKS.index)
    if draw(st.integers(0, 5)) == 0:
        # instance layers whose hooks are callable objects with value equality: the hooks of different layers compare
        # equal, each layer still gets its own call
        for L in spec['layers']:
            L['eq_hooks'] = True
            if draw(st.booleans()):
                L['kind'] = 'inst'
    opts = {'repeat': draw(st.sampled_from([1, 1, 1, 2, 3])),
            'shuffle': draw(st.one_of(st.none(), st.integers(0, 10 ** 6))),
            'verbose': draw(st.integers(0, 2))}
    # (with -x the run ends after the first bad test; that test, too, is bracketed completely)
    opts['stop'] = draw(st.integers(0, 5)) == 0
    # post-mortem mode runs tests through a different loop (startTest / test.debug() / stopTest); pdb gets 'c' on stdin
    if draw(st.sampled_from([False] * 5 + [True])):
        opts['post_mortem'] = True
        opts['repeat'] = 1
    elif draw(st.integers(0, 5)) == 0:
        # a test that itself runs the test runner in process (as the runner's own tests and the tests of packages that
        # ship layers do): two result objects are alive at the same time
        tests = [t for _, t in gen.iter_tests(spec) if t['k'] != 'skip_deco']
        if tests:
            t = tests[draw(st.integers(0, len(tests) - 1))]
            t.setdefault('acts', {}).setdefault(draw(st.sampled_from(['setUp', 'body', 'tearDown'])), []).append(
                ['nested_run', [], draw(st.sampled_from(['hooks', 'plain']))])
            opts['nested'] = True
    return {'spec': spec, 'opts': opts}


def args_of(opts):
    args = []
    if opts.get('repeat', 1) > 1:
        args += ['--repeat', str(opts['repeat'])]
    if opts.get('shuffle') is not None:
        args += ['--shuffle', '--shuffle-seed', str(opts['shuffle'])]
    args += ['-v'] * opts.get('verbose', 0)
    if opts.get('buffer'):
        args.append('--buffer')
    if opts.get('stop'):
        args.append('-x')
    if opts.get('post_mortem'):
        args.append('-D')
    return args


class InProc(Part):
    name = 'inproc'
    examples = {'quick': 3000, 'thorough': 60000}

    def strategy(self, tier):
        return cases()

    def execute(self, case):
        spec = common.with_prefix(case['spec'])
        pm = bool(case['opts'].get('post_mortem'))
        import io
        run = drive.run_inproc(spec, args_of(case['opts']), stdin=io.StringIO('c\n' * 200) if pm else None)
        w = traceana.World(spec)
        viol = []
        skl = common.skipped_layers(spec)
        for pid, evs in traceana.by_pid(run.trace).items():
            if pm:
                viol += traceana.check_per_test_hooks_debug(w, evs)
            else:
                viol += traceana.check_per_test_hooks(w, evs, skl)
        # an aborted run is C04's business, but it truncates the history: label it
        labels = ['hooks-that-compare-equal'] if any(L.get('eq_hooks') for L in spec['layers']) else []
        if case['opts'].get('stop'):
            labels.append('-x')
        if case['opts'].get('nested'):
            labels.append('nested-run')
        if run.exc is not None:
            labels.append('run-aborted(%s)' % type(run.exc).__name__)
        kinds = common.count_kinds(spec)
        for k in kinds:
            labels.append('kind:' + k)
        hooked = 0
        nonpass = any(k != 'pass' for k in kinds)
        for rec in w.tests.values():
            clo = w.clo(rec['layer'])
            n = sum(1 for j in clo if w.has(j, 'testSetUp') or w.has(j, 'testTearDown'))
            hooked = max(hooked, n)
        if hooked >= 2:
            labels.append('>=2-hooked-layers-in-closure')
        if case['opts'].get('repeat', 1) > 1:
            labels.append('repeat')
        if pm:
            labels.append('post-mortem')
            if any(e['ev'] == 'T' and e['ph'] == 'ran' for e in run.trace):
                labels.append('post-mortem:test-ran')
        return Outcome(viol, labels, hooked >= 2 and nonpass)


class C05(Prop):
    id = 'C05'
    registered = True
    technique = 'Hypothesis-generated worlds run in-process; bracket/balance invariant over the hook trace'
    level_text = 'Generated layer DAGs with per-test hooks on any subset and histories of tests of every outcome kind (incl. --repeat/--shuffle) are run through the real Runner; an invariant over the pid-tagged trace checks once-per-layer, bases-first, mirrored tear-down and per-layer balance at every event.'
    level_note = 'Trusts the world runtime (ztv/runtime.py) to log the layer a hook is called on; only Python 3.12.1 behaviour of unittest is exercised.'
    rule = ('Hypothesis worlds: layer DAG (<=5 layers, class/instance, any hook subset), 1-2 modules with nested '
            'suites, tests of every outcome kind, --repeat 1..3, optional shuffle, 1/6 of the cases in post-mortem mode (-D, pdb scripted); run in-process; oracle over the '
            'trace of testSetUp/testTearDown/test phases. Non-trivial = some test has >=2 layers with per-test '
            'hooks in its stack AND the world contains a non-pass outcome. Distinct by hash of (spec, options).')
    assumptions = ('hooks log the layer they are called on; class layers inherit hooks (runner uses hasattr)',
                   'a decorator-skipped test (never started on this interpreter) may see both hooks or neither')
    parts = (InProc(),)


PROP = C05()
