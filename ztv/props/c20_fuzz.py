"""Coverage-guided complement of C20 (thorough tier): atheris/libFuzzer drives DiGraph.sccs through the same oracle.

Run as a script by ``c20.Fuzz``:  c20_fuzz.py <runs> <seed> <workdir>
Fuzz bytes are decoded into a structured case (node count <= 12, adjacency rows, node kind, insertion order, call
pattern flags), so every input is a graph the class accepts.  The oracle (reachability-closure partition) runs inside the
target; a violation prints ``ZTV-VIOLATION <json>`` and raises, so libFuzzer stops and keeps the input.
Statistics are appended to <workdir>/stats.json every 2000 executions (libFuzzer ends the process itself).
"""
import json
import os
import sys

HERE = os.path.dirname(os.path.dirname(os.path.dirname(os.path.abspath(__file__))))


def main():
    runs, seed, workdir = int(sys.argv[1]), int(sys.argv[2]), sys.argv[3]
    sys.path.insert(0, HERE)
    sys.path.insert(0, os.path.join(HERE, '.deps'))
    from ztv import boot
    boot.bootstrap()
    try:
        import atheris
    except ImportError:
        print('ZTV-NO-ATHERIS')
        return 3
    with atheris.instrument_imports(include=['zope.testrunner.digraph']):
        import zope.testrunner.digraph  # noqa: F401
    from ztv.props import c20

    stats = {'execs': 0, 'nontrivial': 0, 'distinct': 0, 'max_n': 0, 'sample': None}
    seen = set()

    def flush():
        with open(os.path.join(workdir, 'stats.json.tmp'), 'w') as f:
            json.dump(stats, f)
        os.replace(os.path.join(workdir, 'stats.json.tmp'), os.path.join(workdir, 'stats.json'))

    def target(data):
        fdp = atheris.FuzzedDataProvider(data)
        n = fdp.ConsumeIntInRange(1, 12)
        ntype = c20.NODE_TYPES[fdp.ConsumeIntInRange(0, len(c20.NODE_TYPES) - 1)]
        flags = fdp.ConsumeIntInRange(0, 31)
        order = list(range(n))
        for i in range(n - 1, 0, -1):
            j = fdp.ConsumeIntInRange(0, i)
            order[i], order[j] = order[j], order[i]
        edges = []
        for a in range(n):
            row = fdp.ConsumeIntInRange(0, (1 << n) - 1)
            edges += [[a, b] for b in range(n) if row >> b & 1]
        case = dict(n=n, edges=edges, order=order, ntype=ntype, sink_calls=bool(flags & 1), unknown=bool(flags & 2),
                    split=bool(flags & 4), ctor_nodes=bool(flags & 8), nb_rev=bool(flags & 16))
        out = c20.outcome_for(case)
        stats['execs'] += 1
        stats['max_n'] = max(stats['max_n'], n)
        if out.nontrivial:
            h = hash((n, ntype, flags, tuple(order), tuple(map(tuple, edges))))
            if h not in seen:
                seen.add(h)
                stats['nontrivial'] += 1
                stats['distinct'] = len(seen)
                if stats['sample'] is None or (n >= 6 and stats['sample']['n'] < 6):
                    stats['sample'] = case
        if stats['execs'] % 2000 == 0:
            flush()
        if out.viol:
            print('ZTV-VIOLATION ' + json.dumps({'case': case, 'viol': out.viol}), flush=True)
            flush()
            raise RuntimeError(out.viol[0][0])

    corpus = os.path.join(workdir, 'corpus')
    os.makedirs(corpus, exist_ok=True)
    atheris.Setup([sys.argv[0], '-runs=%d' % runs, '-seed=%d' % (seed or 1), '-max_len=48', '-verbosity=0',
                   '-print_final_stats=0', '-artifact_prefix=%s/' % workdir, corpus], target)
    flush()
    atheris.Fuzz()
    return 0


if __name__ == '__main__':
    sys.exit(main())
