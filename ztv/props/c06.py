"""C06 - -j N runs equal sequential runs; output ordered per layer; at most N alive, up to N in flight.

Two parts:

``sched``  the harness owns the schedule.  Every layer's tests carry barrier points; the layer subprocesses are real
           runners that block at them; the harness releases the waiting barrier points one at a time in a generated
           priority order (a generated completion order *and* a generated interleaving of partial outputs).  Oracles:
           differential against the sequential run of the same world, block structure of the parent's output, never
           more than N children waiting/alive, min(N, layers left) children in flight before anything is released.
``diff``   natural schedule, bigger worlds (every outcome kind, failing layer hooks, NotImplementedError tear-downs):
           sequential vs. -j N differential + alive-interval bound from the trace.
"""
import copy
import os
import re
import shutil
import tempfile
import time
from collections import Counter

from hypothesis import strategies as st

from .. import drive, gen, model, parse, runtime, traceana
from ..engine import Outcome, Part, Prop
from . import common

EMPTY = '.EmptyLayer'
RE_KEEPALIVE = re.compile(r'\[Parallel tests running in [^\n]*:\n  (?:\.+| LAYER FINISHED)*(?:\]\n)?')
RE_TOKEN = re.compile(r'Tk\d+q')

STEP_TIMEOUT = float(os.environ.get('ZTV_C06_STEP_TIMEOUT', '90'))
GRACE = float(os.environ.get('ZTV_C06_GRACE', '1.0'))


# ------------------------------------------------------------------------------------------------
# generators


@st.composite
def sched_cases(draw):
    k = draw(st.integers(1, 4))
    names = draw(st.permutations(gen.LAYER_NAMES))[:k]
    layers = []
    for i in range(k):
        bases = draw(st.lists(st.integers(0, i - 1), max_size=2, unique=True)) if i and draw(st.booleans()) else []
        layers.append({'name': names[i], 'kind': draw(st.sampled_from(['class', 'inst'])), 'bases': bases,
                       'hooks': ['setUp', 'tearDown']})
    with_unit = draw(st.integers(0, 3)) == 0
    groups = list(range(k)) + ([model.UNIT] if with_unit else [])
    ntok = [0]
    nbar = [0]
    cases_ = []
    barriers = {}      # barrier name -> layer index (UNIT = -1) of the test that waits there

    def tok():
        ntok[0] += 1
        return 'Tk%dq' % ntok[0]

    for gi, g in enumerate(groups):
        ntests = draw(st.integers(1, 3))
        tnames = draw(st.permutations(['test_a', 'test_b', 'test_c', 'test_d']))[:ntests]
        tests = []
        want_barriers = draw(st.integers(1, 3))
        slots = [(ti, ph) for ti in range(ntests) for ph in ('setUp', 'body', 'tearDown')]
        kinds = [draw(st.sampled_from(['pass', 'pass', 'pass', 'fail', 'error', 'skip_body', 'fail_teardown']))
                 for _ in range(ntests)]
        chosen = draw(st.lists(st.sampled_from(slots), min_size=1, max_size=want_barriers, unique=True))
        for ti, nm in enumerate(tnames):
            t = {'n': nm, 'k': kinds[ti]}
            if kinds[ti] in ('error', 'fail_teardown'):
                t['exc'] = draw(st.sampled_from(gen.SIMPLE_EXCS))
            acts = {}
            for ph in ('setUp', 'body', 'tearDown'):
                a = []
                if draw(st.integers(0, 2)) > 0:
                    a.append(['out', 'p', tok()])
                if (ti, ph) in chosen:
                    nbar[0] += 1
                    bn = 'B%d' % nbar[0]
                    barriers[bn] = g
                    a.append(['barrier', bn])
                    if draw(st.booleans()):
                        a.append(['out', 'p', tok()])
                if a:
                    acts[ph] = a
            if acts:
                t['acts'] = acts
            tests.append(t)
        node = {'t': 'c', 'name': 'TC%d' % gi, 'tests': tests}
        if g != model.UNIT:
            node['layer'] = g
        cases_.append(node)
    order = draw(st.permutations(list(range(len(cases_)))))
    nmod = draw(st.integers(1, 2))
    mods = [{'name': 'ab'[m], 'tree': {'t': 's', 'ch': []}} for m in range(nmod)]
    for pos, ci in enumerate(order):
        mods[pos % nmod]['tree']['ch'].append(cases_[ci])
    mods = [m for m in mods if m['tree']['ch']]
    n = draw(st.sampled_from([1] + list(range(2, len(groups) + 2)) * 3))
    resume = False
    if n == 1 and k >= 2 and draw(st.booleans()):
        # -j 1 only uses subprocesses after a NotImplementedError tear-down (the "immediate" collector)
        layers[0].setdefault('faults', {})['tearDown'] = 'NIE'
        resume = True
    prio = draw(st.permutations(sorted(barriers)))
    return {'spec': {'layers': layers, 'modules': mods}, 'n': n, 'verbose': draw(st.sampled_from([0, 1, 2, 3])),
            'barriers': barriers, 'prio': list(prio), 'resume': resume,
            'shuffle': draw(st.one_of(st.none(), st.none(), st.integers(0, 999))),
            'progress': draw(st.sampled_from([False, False, False, True]))}


@st.composite
def diff_cases(draw):
    faults = draw(st.sampled_from([None, None, None, {'setUp': 15}, {'tearDown': 15}]))
    spec = draw(gen.worlds(max_layers=5, min_layers=1, hooks='layer', faults=faults,
                           nie=draw(st.sampled_from([0, 0, 25])), kinds=gen.ALL_KINDS, max_modules=3, depth=2,
                           max_tests=4, weights_good=55, layer_decl=85, explicit_unit=True, max_children=3))
    for L in spec['layers']:
        if draw(st.integers(0, 99)) < 60:
            L['hooks'] = sorted(set(L['hooks']) | {'setUp', 'tearDown'}, key=gen.HOOKS.index)
    tokens = gen.add_outputs(draw, spec, prob=60, streams=('p',), bad_bytes=False, max_per_test=2, dots=True)
    nl = len(spec['layers'])
    if draw(st.integers(0, 2)) == 0:
        # names with regular-expression metacharacters, case-only differences, leading zeros
        from .c10 import TRICKY
        for L, nm in zip(spec['layers'], draw(st.permutations(TRICKY))):
            L['name'] = nm
    if draw(st.integers(0, 3)) == 0:
        # a child whose interpreter shutdown writes to fd 2 after its report was sent
        tests = [t for _, t in gen.iter_tests(spec)]
        t = tests[draw(st.integers(0, len(tests) - 1))]
        t.setdefault('acts', {}).setdefault('setUp', []).append(
            ['in_child', ['atexit_noise', 'fd2', draw(st.sampled_from(['bye from a helper\n', 'x\ny\n', 'no newline'])), 1]])
    return {'spec': spec, 'n': draw(st.sampled_from([1] + list(range(2, nl + 3)) * 2)),
            'verbose': draw(st.sampled_from([0, 1, 2, 3])),
            'tokens': sorted(tokens), 'shuffle': draw(st.one_of(st.none(), st.none(), st.integers(0, 999))),
            'buffer': False, 'progress': draw(st.sampled_from([False, False, False, True]))}


# ------------------------------------------------------------------------------------------------
# oracles shared by both parts


def strip_keepalive(text):
    return RE_KEEPALIVE.sub('', text)


def token_layers(spec):
    """token -> full layer name of the test that prints it"""
    out = {}
    for rec in model.resolve(spec):
        for ph, acts in (rec['t'].get('acts') or {}).items():
            for a in acts:
                if a[0] == 'out':
                    for tok in RE_TOKEN.findall(a[2]):
                        out[tok] = rec['layer_name']
    return out


def executed(run):
    c = Counter()
    for e in run.trace:
        if e['ev'] == 'T' and e['ph'] == 'run':
            c[e['id']] += 1
    return c


def phases(run):
    """multiset of (test id, phase) - what really ran of each test"""
    c = Counter()
    for e in run.trace:
        if e['ev'] == 'T' and e['ph'] in ('setUp', 'body', 'tearDown', 'cleanup', 'subfail'):
            c[(e['id'], e['ph'])] += 1
    return c


def alive_overlap(trace, main_pid):
    """max number of layer subprocesses provably alive at the same instant: a child is alive from its first event to
    its ``child_exit`` event (or, when that is missing, to its last event - an under-approximation)"""
    first, last, exited = {}, {}, {}
    for e in trace:
        pid = e['pid']
        if pid == main_pid or 't' not in e:
            continue
        first.setdefault(pid, e['t'])
        last[pid] = e['t']
        if e['ev'] == 'child_exit':
            exited[pid] = e['t']
    points = []
    for pid in first:
        points.append((first[pid], 1))
        points.append((exited.get(pid, last[pid]), -1))
    points.sort(key=lambda x: (x[0], x[1]))
    cur = best = 0
    for _, d in points:
        cur += d
        best = max(best, cur)
    return best, len(first)


def order_by_layer(spec, run):
    """layer name -> test ids in execution order (first occurrence of each layer group, per process)"""
    w = traceana.World(spec)
    out = {}
    for e in run.trace:
        if e['ev'] == 'T' and e['ph'] == 'run':
            rec = w.tests.get(e['id'])
            if rec is not None:
                out.setdefault(rec['layer_name'], []).append(e['id'])
    return out


def compare_runs(spec, seq, par, tag, verbose, layer_faults, viol, n, progress=False):
    """differential sequential vs. -j N (both already checked for escaping exceptions)"""
    ps = parse.parse(seq.out, progress=progress)
    pp = parse.parse(strip_keepalive(par.out), progress=progress)
    if seq.failed != par.failed:
        viol.append(('C06/verdict-differs/' + tag, 'sequential verdict failed=%s, -j%d verdict failed=%s'
                     % (seq.failed, n, par.failed)))
    a, b = executed(seq), executed(par)
    if a != b:
        viol.append(('C06/executed-tests-differ/' + tag, 'sequential ran %d tests, -j%d ran %d; difference %s'
                     % (sum(a.values()), n, sum(b.values()), _sh(sorted(((a - b) + (b - a)).items())[:4], spec))))
    else:
        a, b = phases(seq), phases(par)
        if a != b:
            viol.append(('C06/outcomes-differ/' + tag, 'test phases executed differ: %s'
                         % _sh(sorted(((a - b) + (b - a)).items())[:4], spec)))
        # the tests of a layer run in the same order (no shuffle, or the same explicit seed): order-dependent tests
        # would otherwise have different outcomes
        oa, ob = order_by_layer(spec, seq), order_by_layer(spec, par)
        for ln in oa:
            if ln in ob and oa[ln] != ob[ln] and sorted(oa[ln]) == sorted(ob[ln]):
                viol.append(('C06/test-order-differs/' + tag, 'layer %s: sequential order %s, -j%d order %s'
                             % (_sh(ln, spec), _sh(oa[ln], spec), n, _sh(ob[ln], spec))))
                break
    # per-layer summaries and header order
    hs = [blk.layer for blk in ps.blocks]
    hp = [blk.layer for blk in pp.blocks if blk.layer != EMPTY]
    if hs != hp:
        viol.append(('C06/layer-order-differs/' + tag, 'sequential prints layers %s, -j%d prints %s'
                     % (_sh(hs, spec), n, _sh(hp, spec))))
    rs = {blk.layer: blk.ran for blk in ps.blocks}
    rp = {blk.layer: blk.ran for blk in pp.blocks if blk.layer != EMPTY}
    if not layer_faults:
        for ln in rs:
            if ln in rp and rs[ln] != rp[ln]:
                viol.append(('C06/layer-summary-differs/' + tag, 'layer %s: sequential %s, -j%d %s'
                             % (_sh(ln, spec), rs[ln], n, rp[ln])))
        if ps.total is not None and pp.total is not None and ps.total != pp.total:
            viol.append(('C06/total-differs/' + tag, 'sequential Total %s, -j%d Total %s' % (ps.total, n, pp.total)))
        if (ps.total is None) != (pp.total is None) and len(hs) > 1:
            viol.append(('C06/total-line-missing/' + tag, 'Total line: sequential %s, -j%d %s' % (ps.total, n, pp.total)))
    if verbose >= 1:
        for what, ls, lp in (('failures', ps.failures_list, pp.failures_list), ('errors', ps.errors_list, pp.errors_list)):
            cs = Counter(x for x in (ls or []) if not x.startswith('Layer: '))
            cp = Counter(x for x in (lp or []) if not x.startswith('Layer: '))
            if cs != cp:
                viol.append(('C06/%s-list-differs/%s' % (what, tag), '"Tests with %s": sequential %s, -j%d %s'
                             % (what, _sh(sorted(cs.items()), spec), n, _sh(sorted(cp.items()), spec))))
            if not layer_faults:
                cs = Counter(x for x in (ls or []) if x.startswith('Layer: '))
                cp = Counter(x for x in (lp or []) if x.startswith('Layer: '))
                if cs != cp:
                    viol.append(('C06/%s-list-differs/%s' % (what, tag), 'layer entries under "Tests with %s": sequential '
                                 '%s, -j%d %s' % (what, _sh(sorted(cs.items()), spec), n, _sh(sorted(cp.items()), spec))))
    return ps, pp


def check_blocks(spec, pp, par_out, tag, viol):
    """each layer's output is one contiguous block: one header per layer, every token of the layer's tests exactly
    once and inside that block"""
    heads = [blk.layer for blk in pp.blocks if blk.layer != EMPTY]
    dup = [h for h, c in Counter(heads).items() if c > 1]
    if dup:
        viol.append(('C06/layer-output-split/' + tag, 'layers printed as several blocks: %s' % _sh(dup, spec)))
    tl = token_layers(spec)
    where = {}
    for blk in pp.blocks:
        for line in blk.lines:
            for tok in RE_TOKEN.findall(line):
                where.setdefault(tok, []).append(blk.layer)
    for line in pp.pre:
        for tok in RE_TOKEN.findall(line):
            where.setdefault(tok, []).append('<before any layer header>')
    bad = []
    for tok, ln in tl.items():
        got = where.get(tok, [])
        if got and got != [ln]:
            bad.append((tok, _sh(ln, spec), _sh(got, spec)))
    if bad:
        viol.append(('C06/output-outside-its-layer-block/' + tag,
                     'output of a test printed outside the block of its layer (token, layer, printed in): %s' % bad[:4]))
    return where, tl


def _sh(x, spec):
    return str(x).replace(spec['mp'], '')


# ------------------------------------------------------------------------------------------------
# scheduled driver


def _scan(ctl):
    """barrier name -> set of pids that announced their arrival"""
    out = {}
    try:
        names = os.listdir(ctl)
    except OSError:
        return out
    for nm in names:
        if '.arrived.' in nm:
            b, _, pid = nm.partition('.arrived.')
            out.setdefault(b, set()).add(pid)
    return out


def run_scheduled(W, args, n, barriers, prio, settle=0.0):
    """Start the runner on world ``W`` with barrier control; release waiting barrier points one at a time, lowest
    priority value first.  Returns (Run, info)."""
    ctl = tempfile.mkdtemp(prefix='ctl', dir=W.dir)
    rank = {b: i for i, b in enumerate(prio)}
    unfinished = {}
    for b, g in barriers.items():
        unfinished.setdefault(g, set()).add(b)
    released = []
    info = {'max_waiting': 0, 'stalled': None, 'first_wait': None, 'release_order': released, 'extra_arrival': None,
            'finish_order': [], 'parent_timeout': False}
    p, trace_path, outp, errp = W.popen(args, control=ctl)
    run = drive.Run()
    run.main_pid = p.pid
    t_start = time.monotonic()
    try:
        first = True
        while unfinished:
            want = min(max(n, 1), len(unfinished))
            t0 = time.monotonic()
            while True:
                arrived = _scan(ctl)
                waiting = [b for b in arrived if b not in released]
                if len(waiting) >= want:
                    break
                if p.poll() is not None:
                    info['stalled'] = ('parent-exited', want, len(waiting))
                    break
                if time.monotonic() - t0 > STEP_TIMEOUT:
                    info['stalled'] = ('timeout', want, len(waiting))
                    break
                time.sleep(0.004)
            if first:
                info['first_wait'] = (want, len(waiting), round(time.monotonic() - t0, 2))
                # give a surplus child the time to show up before anything is released
                t1 = time.monotonic()
                while time.monotonic() - t1 < GRACE:
                    time.sleep(0.02)
                    if len([b for b in _scan(ctl) if b not in released]) > want:
                        break
                waiting = [b for b in _scan(ctl) if b not in released]
                first = False
            info['max_waiting'] = max(info['max_waiting'], len(waiting))
            if len(waiting) > max(n, 1):
                info['extra_arrival'] = (len(waiting), n)
            if info['stalled']:
                break
            nxt = min(waiting, key=lambda b: rank.get(b, 1 << 30))
            with open(os.path.join(ctl, nxt + '.go'), 'w'):
                pass
            released.append(nxt)
            if settle:
                time.sleep(settle)     # let the parent react to what the released child does before the next release
            g = barriers.get(nxt)
            if g in unfinished:
                unfinished[g].discard(nxt)
                if not unfinished[g]:
                    del unfinished[g]
                    info['finish_order'].append(g)
        # everything released (or stalled): let the rest run free
        for b in barriers:
            path = os.path.join(ctl, b + '.go')
            if not os.path.exists(path):
                with open(path, 'w'):
                    pass
        try:
            p.wait(timeout=STEP_TIMEOUT * 2)
        except Exception:  # noqa: BLE001
            info['parent_timeout'] = True
    finally:
        for b in barriers:
            try:
                with open(os.path.join(ctl, b + '.go'), 'w'):
                    pass
            except OSError:
                pass
        if p.poll() is None:
            try:
                os.killpg(p.pid, 9)
            except OSError:
                pass
            p.wait()
    run.wall = time.monotonic() - t_start
    run.exit = p.returncode
    run.failed = None if run.exit not in (0, 1) else bool(run.exit)
    with open(outp, 'rb') as f:
        run.out = f.read().decode('utf-8', 'replace')
    with open(errp, 'rb') as f:
        run.err = f.read().decode('utf-8', 'replace')
    run.trace = runtime.read_trace(trace_path)
    shutil.rmtree(ctl, ignore_errors=True)
    return run, info


def cli_escaped(run, tag):
    if run.timeout:
        return [('C06/hang/' + tag, 'the runner did not finish')]
    if run.exit not in (0, 1) or 'Traceback (most recent call last)' in run.err:
        return [('C06/run-aborted/' + tag, 'exit status %s, stderr: %s' % (run.exit, run.err[-400:]))]
    return []


class Sched(Part):
    name = 'sched'
    examples = {'quick': 96, 'thorough': 1600}

    def strategy(self, tier):
        return sched_cases()

    def enumerate(self, tier, w, nworkers):
        """thorough: every completion order of k in {2,3} independent layers x N in 1..k+1 x the three collectors"""
        if tier != 'thorough':
            return
        import itertools
        idx = 0
        for k in (2, 3):
            for perm in itertools.permutations(range(k)):
                for n in range(1, k + 2):
                    for verbose in (0, 1, 2, 3):
                        idx += 1
                        if idx % nworkers != w:
                            continue
                        layers = [{'name': gen.LAYER_NAMES[i], 'kind': 'class', 'bases': [], 'hooks': ['setUp', 'tearDown']}
                                  for i in range(k)]
                        ch, barriers = [], {}
                        for i in range(k):
                            ch.append({'t': 'c', 'name': 'TC%d' % i, 'layer': i, 'tests': [
                                {'n': 'test_a', 'k': 'pass', 'acts': {'body': [['out', 'p', 'Tk%dq' % (2 * i + 1)]]}},
                                {'n': 'test_b', 'k': 'fail' if i == 0 else 'pass',
                                 'acts': {'body': [['out', 'p', 'Tk%dq' % (2 * i + 2)], ['barrier', 'B%d' % i]]}}]})
                            barriers['B%d' % i] = i
                        yield {'spec': {'layers': layers, 'modules': [{'name': 'a', 'tree': {'t': 's', 'ch': ch}}]},
                               'n': n, 'verbose': verbose, 'barriers': barriers, 'prio': ['B%d' % i for i in perm],
                               'resume': False, 'shuffle': None}

    exhaustive_note = ('all completion orders of k in {2,3} independent layers x N in 1..k+1 x -v 0..3 '
                       '(thorough tier only)')

    def execute(self, case):
        out = self._execute(case)
        if any(s.startswith(('C06/stalled', 'C06/hang', 'C06/fewer')) for s, _ in out.viol):
            # timing decided: the same case must fail the same way twice in a row
            again = self._execute(case)
            sigs = {s for s, _ in again.viol}
            out.viol = [(s, m) for s, m in out.viol
                        if not s.startswith(('C06/stalled', 'C06/hang', 'C06/fewer')) or s in sigs]
        return out

    def _execute(self, case):
        spec = common.with_prefix(copy.deepcopy(case['spec']))
        n = case['n']
        barriers = {b: g for b, g in case['barriers'].items()}
        # JSON round trips turn the UNIT group (-1) and indices into whatever they were; keep them hashable
        viol = []
        base = ['-v'] * case['verbose']
        if case.get('shuffle') is not None:
            base += ['--shuffle', '--shuffle-seed', str(case['shuffle'])]
        progress = bool(case.get('progress'))
        if progress:
            base += ['-p']
        with drive.World(spec) as W:
            seq = W.run(base, timeout=STEP_TIMEOUT * 2)
            viol += cli_escaped(seq, 'sequential')
            par, info = run_scheduled(W, base + ['-j', str(n)], n, barriers, case['prio'])
        tag = 'j%d' % n
        if info['parent_timeout']:
            viol.append(('C06/hang/' + tag, 'the -j%d run did not finish after every barrier was released' % n))
        viol += cli_escaped(par, tag)
        if info['stalled']:
            why, want, got = info['stalled']
            if why == 'timeout':
                viol.append(('C06/fewer-than-N-in-flight/' + tag,
                             '%d layer(s) should be in flight (N=%d) but only %d reached their barrier within %.0fs '
                             '(released so far: %s)' % (want, n, got, STEP_TIMEOUT, info['release_order'])))
            elif not viol:
                viol.append(('C06/stalled/' + tag, 'the run ended while %d barrier point(s) were never reached'
                             % (want - got)))
        if info['extra_arrival']:
            viol.append(('C06/more-than-N-alive/' + tag, '%d layer subprocesses were blocked at their barriers at the '
                         'same time with -j %d' % info['extra_arrival']))
        overlap, nchildren = alive_overlap(par.trace, par.main_pid)
        if overlap > max(n, 1):
            viol.append(('C06/more-than-N-alive/' + tag, '%d layer subprocesses alive at the same instant with -j %d'
                         % (overlap, n)))
        labels = ['N=%d' % n, 'v%d' % case['verbose'], 'children=%d' % min(nchildren, 5)]
        if not seq.timeout and not par.timeout and seq.exit in (0, 1) and par.exit in (0, 1) and not info['stalled']:
            ps, pp = compare_runs(spec, seq, par, tag, case['verbose'], False, viol, n, progress)
            where, tl = check_blocks(spec, pp, par.out, tag, viol)
            missing = [t for t in tl if t not in where]
            seq_tokens = set(RE_TOKEN.findall(seq.out))
            lost = [t for t in missing if t in seq_tokens]
            if lost:
                viol.append(('C06/output-lost/' + tag, 'printed by the sequential run but not by -j%d: %s' % (n, lost[:5])))
        # completion order vs. start order
        groups = sorted({g for g in barriers.values()}, key=lambda g: (g != model.UNIT, g))
        fin = info['finish_order']
        start_order = [blk for blk in fin]
        reordered = False
        if not viol:
            seq_heads = [blk.layer for blk in parse.parse(seq.out, progress=progress).blocks]
            pos = {}
            for g in fin:
                pos[g] = seq_heads.index(model.layer_fullname(spec, g)) if model.layer_fullname(spec, g) in seq_heads else -1
            order = [pos[g] for g in fin]
            reordered = order != sorted(order)
        if reordered:
            labels.append('completion-order!=start-order')
        if case.get('resume'):
            labels.append('resumed-j1')
        if progress:
            labels.append('--progress')
        if len(case['barriers']) > len(groups):
            labels.append('several-barriers-in-a-layer')
        labels.append('collector:' + ('immediate' if n == 1 else 'keepalive' if case['verbose'] > 1 else 'deferred'))
        del start_order
        return Outcome(viol, labels, reordered and n >= 2,
                       key=['sched', case['spec'], n, case['verbose'], case['prio']])


class Diff(Part):
    name = 'diff'
    examples = {'quick': 160, 'thorough': 3000}

    def strategy(self, tier):
        return diff_cases()

    def execute(self, case):
        base = case['spec']
        spec = common.with_prefix(copy.deepcopy(base))
        n = case['n']
        viol = []
        progress = bool(case.get('progress'))
        opts = {'verbose': case['verbose'], 'shuffle': case.get('shuffle'), 'extra': ['-p'] if progress else []}
        seq = drive.run_inproc(spec, common.args_of(opts), disk=True)
        viol += [(s + '/sequential', m) for s, m in common.run_escaped(seq, 'C06')]
        par = drive.run_inproc(spec, common.args_of(dict(opts, j=n)), disk=True)
        tag = 'j%d' % n
        viol += [(s + '/' + tag, m) for s, m in common.run_escaped(par, 'C06')]
        # (tear-down failures of shared bases are counted once per process by design; set-up failures once per
        # dependent layer in every mode)
        layer_faults = any((L.get('faults') or {}).get('tearDown', 'NIE') != 'NIE' for L in spec['layers'])
        overlap, nchildren = alive_overlap(par.trace, par.main_pid)
        if overlap > max(n, 1):
            viol.append(('C06/more-than-N-alive/' + tag, '%d layer subprocesses alive at the same instant with -j %d'
                         % (overlap, n)))
        if seq.exc is None and par.exc is None:
            ps, pp = compare_runs(spec, seq, par, tag, case['verbose'], layer_faults, viol, n, progress)
            setup_faults = any('setUp' in (L.get('faults') or {}) for L in spec['layers'])
            if not setup_faults:
                where, tl = check_blocks(spec, pp, par.out, tag, viol)
                seq_tokens = set(RE_TOKEN.findall(seq.out))
                lost = [t for t in tl if t not in where and t in seq_tokens]
                if lost:
                    viol.append(('C06/output-lost/' + tag, 'printed by the sequential run but not by -j%d: %s'
                                 % (n, lost[:5])))
        labels = ['N=%d' % min(n, 5), 'v%d' % case['verbose'], 'children=%d' % min(nchildren, 6)]
        if layer_faults:
            labels.append('layer-faults')
        bad = any(model.is_bad(t) for _, t in gen.iter_tests(spec))
        if bad:
            labels.append('has-bad')
        if overlap >= 2:
            labels.append('overlap>=2')
        if progress:
            labels.append('--progress')
        if any(e['ev'] == 'noise' and str(e.get('where', '')).endswith(':atexit') for e in par.trace):
            labels.append('child-shutdown-noise')
        return Outcome(viol, labels, nchildren >= 2 and n >= 2 and bad)


@st.composite
def spawnfail_cases(draw):
    """k independent layers one of which cannot be started in a subprocess (its --resume-layer argument is longer than
    the kernel accepts for one argument, so Popen raises OSError E2BIG); sequentially the layer is an ordinary layer"""
    k = draw(st.integers(2, 4))
    names = list(draw(st.permutations(gen.LAYER_NAMES)))[:k]
    victim = draw(st.integers(0, k - 1))
    names[victim] = names[victim] + 'x' * draw(st.sampled_from([131072, 140000]))
    layers = [{'name': nm, 'kind': 'class', 'bases': [], 'hooks': ['setUp', 'tearDown']} for nm in names]
    ch = []
    tok = 0
    for i in range(k):
        tests = []
        for j in range(draw(st.integers(1, 3))):
            tok += 1
            tests.append({'n': 'test_%d' % j, 'k': draw(st.sampled_from(['pass', 'pass', 'pass', 'fail', 'error', 'skip_body'])),
                          'acts': {'body': [['out', 'p', 'Tk%dq' % tok]]}})
        ch.append({'t': 'c', 'name': 'TC%d' % i, 'layer': i, 'tests': tests})
    if draw(st.booleans()):
        ch.append({'t': 'c', 'name': 'TCU', 'tests': [{'n': 'test_u', 'k': 'pass'}]})
    return {'spec': {'layers': layers, 'modules': [{'name': 'a', 'tree': {'t': 's', 'ch': ch}}]}, 'victim': victim,
            'n': draw(st.integers(2, k + 1)), 'verbose': draw(st.integers(0, 3))}


class SpawnFail(Part):
    """one of the layers cannot be started (Popen raises OSError): the run ends, the layer is recorded as an error, and
    every *other* layer is still printed as one block, in the sequential order, with its summary and its tests' output"""
    name = 'spawnfail'
    examples = {'quick': 48, 'thorough': 800}

    def strategy(self, tier):
        return spawnfail_cases()

    def execute(self, case):
        spec = common.with_prefix(copy.deepcopy(case['spec']))
        n, v = case['n'], case['verbose']
        tag = 'j%d' % n
        victim = model.layer_fullname(spec, case['victim'])
        viol = []
        seq = drive.run_inproc(spec, common.args_of({'verbose': v}), disk=True)
        viol += [(s + '/sequential', m) for s, m in common.run_escaped(seq, 'C06')]
        par = drive.run_inproc(spec, common.args_of({'verbose': v, 'j': n}), disk=True)
        viol += [(s + '/' + tag, m) for s, m in common.run_escaped(par, 'C06')]
        vshort = spec['layers'][case['victim']]['name']
        started = any(e['pid'] != par.main_pid and e['ev'] == 'L' and e.get('layer') == vshort for e in par.trace)
        if seq.exc is None and par.exc is None and not started:
            ps = parse.parse(seq.out)
            pp = parse.parse(strip_keepalive(par.out))
            short = lambda x: str(x).replace(spec['mp'], '').replace('x' * 1000, '')    # noqa: E731
            if par.failed is not True:
                viol.append(('C06/unstartable-layer-not-a-failure/' + tag, 'a layer subprocess could not be started but '
                             'the verdict is failed=%s' % par.failed))
            hs = [blk.layer for blk in ps.blocks if blk.layer != victim]
            hp = [blk.layer for blk in pp.blocks if blk.layer not in (EMPTY, victim)]
            if hs != hp:
                viol.append(('C06/layer-order-differs/' + tag, 'one layer could not be started; sequential prints the other '
                             'layers as %s, -j%d prints %s' % (short(hs), n, short(hp))))
            rs = {blk.layer: blk.ran for blk in ps.blocks}
            rp = {blk.layer: blk.ran for blk in pp.blocks}
            for ln in hs:
                if ln in rp and rs[ln] != rp[ln]:
                    viol.append(('C06/layer-summary-differs/' + tag, 'layer %s: sequential %s, -j%d %s'
                                 % (short(ln), rs[ln], n, rp[ln])))
            where, tl = check_blocks(spec, pp, par.out, tag, viol)
            seq_tokens = set(RE_TOKEN.findall(seq.out))
            lost = [t for t, ln in tl.items() if ln != victim and t not in where and t in seq_tokens]
            if lost:
                viol.append(('C06/output-lost/' + tag, 'printed by the sequential run but not by -j%d: %s' % (n, lost[:5])))
            a = Counter({t: c for t, c in executed(seq).items()
                         if traceana.World(spec).tests.get(t, {}).get('layer_name') != victim})
            b = executed(par)
            if a != b:
                viol.append(('C06/executed-tests-differ/' + tag, 'tests of the layers that could be started: sequential '
                             '%d, -j%d %d' % (sum(a.values()), n, sum(b.values()))))
        labels = ['N=%d' % n, 'v%d' % v, 'victim-started' if started else 'victim-not-started']
        return Outcome(viol, labels, not started)


CHATTY_TESTS = int(os.environ.get('ZTV_C06_CHATTY_TESTS', '110'))


@st.composite
def chatty_cases(draw):
    """N+1 independent layers, -j N: one of the first N layers runs a steady stream of short tests (a progress mark
    every ~55 ms for ~6 s), the others are over at once; the layer that had to wait for a slot must get it while the
    chatty one is still busy"""
    n = draw(st.integers(2, 3))
    k = n + 1
    names = sorted(gen.LAYER_NAMES[:k])
    chatty = draw(st.integers(0, n - 1))
    layers = [{'name': nm, 'kind': 'class', 'bases': [], 'hooks': ['setUp', 'tearDown']} for nm in names]
    ch = []
    for i in range(k):
        if i == chatty:
            tests = [{'n': 'test_%03d' % j, 'k': 'pass', 'acts': {'body': [['sleep', 0.055]]}} for j in range(CHATTY_TESTS)]
        else:
            tests = [{'n': 'test_0', 'k': draw(st.sampled_from(['pass', 'pass', 'fail'])),
                      'acts': {'body': [['out', 'p', 'Tk%dq' % i]]}}]
        ch.append({'t': 'c', 'name': 'TC%d' % i, 'layer': i, 'tests': tests})
    return {'spec': {'layers': layers, 'modules': [{'name': 'a', 'tree': {'t': 's', 'ch': ch}}]}, 'chatty': chatty,
            'n': n, 'verbose': draw(st.sampled_from([0, 1, 2, 2, 3, 3])), 'progress': draw(st.integers(0, 4)) == 0}


class Chatty(Part):
    """'up to N layers do make progress at the same time' while one child produces output all the time"""
    name = 'chatty'
    examples = {'quick': 48, 'thorough': 320}

    def strategy(self, tier):
        return chatty_cases()

    def execute(self, case):
        out = self._execute(case)
        if out.viol:
            again = self._execute(case)          # decided by time stamps: must repeat
            sigs = {s for s, _ in again.viol}
            out.viol = [(s, m) for s, m in out.viol if s in sigs]
        return out

    def _execute(self, case):
        spec = common.with_prefix(copy.deepcopy(case['spec']))
        n, v = case['n'], case['verbose']
        tag = 'j%d' % n
        args = common.args_of({'verbose': v, 'j': n, 'extra': ['-p'] if case['progress'] else []})
        run = drive.run_inproc(spec, args, disk=True)
        viol = [(s + '/' + tag, m) for s, m in common.run_escaped(run, 'C06')]
        cname = spec['layers'][case['chatty']]['name']
        last = spec['layers'][-1]['name']
        t_chatty_end = max([e['t'] for e in run.trace if e['ev'] == 'L' and e.get('layer') == cname and 't' in e] or [0])
        t_last_start = min([e['t'] for e in run.trace if e['ev'] == 'L' and e.get('layer') == last and 't' in e] or [0])
        ok = bool(t_chatty_end and t_last_start)
        if run.exc is None and not ok:
            viol.append(('C06/layer-never-ran/' + tag, 'no hook event of layer %s / %s in the trace' % (cname, last)))
        elif run.exc is None and t_last_start > t_chatty_end:
            viol.append(('C06/fewer-than-N-in-flight/' + tag,
                         'with -j %d -v%d the layer %s got its slot only %.1f s after the busy layer %s had ended, although a '
                         'slot was free for about %.0f s' % (n, v, last, (t_last_start - t_chatty_end) / 1e9, cname,
                                                            CHATTY_TESTS * 0.055)))
        return Outcome(viol, ['N=%d' % n, 'v%d' % v, 'chatty-layer-%d' % case['chatty']], ok)


class C06(Prop):
    id = 'C06'
    registered = True
    technique = ('harness-owned schedules: real layer subprocesses block at generated barrier points and are released in a '
                 'Hypothesis-generated order (completion permutation + interleaving of partial outputs); differential '
                 'against the sequential run, block-structure oracle over the parent output, alive-interval bound from '
                 'the trace; exhaustive completion orders for k<=3 in the thorough tier; injected spawn failure of one layer; a '
                 'child that prints progress marks all the time while a slot is free (time stamps of the hook trace)')
    level_text = ('Generated worlds (1..4 layers + unit tests, 1..3 barrier points per layer, failing/erroring/skipped '
                  'tests, -v 0..3 i.e. all three result collectors, N in 1..k+1) are run sequentially and with -j N while '
                  'the harness decides which waiting child proceeds next. Same executed tests and phases, verdict, '
                  'per-layer summaries, Total and failure/error lists; each layer printed as one contiguous block holding '
                  'exactly its tests\' output, blocks in sequential order, for every generated schedule; never more than '
                  'N children waiting or alive; min(N, layers left) children in flight before the next release.')
    level_note = ('Line granularity: interleavings inside the OS pipe layer are not controlled. The lower bound and "no '
                  'hang" are decided by a 90 s time-out (a normal step takes <2 s) and must repeat on an immediate re-run '
                  'of the same case. Layer tear-down/set-up failures are counted per process by design, so totals and '
                  'layer entries are only compared for worlds without failing layer hooks.')
    rule = ('sched: Hypothesis worlds with barrier points in test setUp/body/tearDown, release priority = generated '
            'permutation of all barrier points; non-trivial = N>=2 and the layers finish in an order different from the '
            'sequential layer order. diff: bigger worlds, natural schedule; non-trivial = N>=2, >=2 child processes and '
            '>=1 bad test. spawnfail: 2..4 independent layers one of which cannot be started (argument too long for '
            'exec); non-trivial = that layer really was not started. chatty: N+1 layers with -j N, '
            'one busy layer printing progress marks all the time; non-trivial = both layers left hook events. Distinct by hash of (world, N, verbosity, priority order).')
    assumptions = ('CLOCK_MONOTONIC is common to all processes of a run',
                   'a child is alive between its first trace event and its child_exit event')
    parts = (Sched(), Diff(), SpawnFail(), Chatty())


PROP = C06()
