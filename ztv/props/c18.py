"""C18 - interpreter-global state changed for a run is restored afterwards."""
import gc
import io
import os
import shutil
import sys
import tempfile
import threading
import traceback
import warnings

from hypothesis import strategies as st

from .. import drive, gen
from ..engine import Outcome, Part, Prop
from . import common

GC_FLAGS = ('DEBUG_STATS', 'DEBUG_COLLECTABLE', 'DEBUG_UNCOLLECTABLE')   # (SAVEALL/LEAK keep every object alive)
ENDINGS = ('pass', 'failures', 'testSetUp-raises', 'testTearDown-raises', 'kbd-body', 'kbd-setUp', 'kbd-tearDown',
           'stop-on-error', 'layer-setUp-raises', 'layer-tearDown-raises', 'leaked-stream', 'list-tests', 'nested-run')


@st.composite
def cases(draw):
    ending = draw(st.sampled_from(ENDINGS))
    spec = draw(gen.worlds(max_layers=2, min_layers=1, hooks='all', kinds=('pass', 'pass', 'fail', 'error', 'skip_body'),
                           max_modules=1, depth=1, max_tests=3, weights_good=100 if ending == 'pass' else 60,
                           layer_decl=100, max_children=3))
    tests = [t for _, t in gen.iter_tests(spec)]
    victim = tests[draw(st.integers(0, len(tests) - 1))]
    if ending == 'failures':
        victim['k'] = draw(st.sampled_from(['fail', 'error', 'error_both', 'uxsuccess', 'subtests']))
        victim['sub'] = [['fail'], ['error']]
    elif ending in ('testSetUp-raises', 'testTearDown-raises'):
        L = spec['layers'][draw(st.integers(0, len(spec['layers']) - 1))]
        L.setdefault('faults', {})[ending.split('-')[0]] = draw(st.sampled_from(['ValueError', 'KeyboardInterrupt']))
    elif ending.startswith('kbd-'):
        ph = ending[4:]
        victim['k'] = 'pass'
        victim.setdefault('acts', {}).setdefault(ph, []).append(['raise', 'KeyboardInterrupt'])
    elif ending == 'leaked-stream':
        # a test that rebinds sys.stdout/sys.stderr and fails before putting them back (with --buffer: forced below)
        victim['k'] = draw(st.sampled_from(['fail', 'error', 'pass', 'fail_teardown']))
        victim['exc'] = 'ValueError'
        victim.setdefault('acts', {}).setdefault(draw(st.sampled_from(['setUp', 'body'])), []).append(
            ['swap', 'leak', draw(st.sampled_from(['o', 'e', 'oe']))])
    elif ending == 'nested-run':
        # a test that runs the test runner itself, in process (the project's own doctests do that)
        victim['k'] = 'pass'
        victim.setdefault('acts', {}).setdefault('body', []).append(['nested_run', draw(st.sampled_from([[], ['--gc', '5'], ['-vv']]))])
    elif ending in ('layer-setUp-raises', 'layer-tearDown-raises'):
        L = spec['layers'][draw(st.integers(0, len(spec['layers']) - 1))]
        L.setdefault('faults', {})[ending.split('-')[1]] = 'ValueError'
    if draw(st.integers(0, 4)) == 0:
        # a suite-like object that is not a TestSuite keeps unittest's class fixtures alive: results are then reported
        # outside the runner's own startTest/stopTest bracket (here: a class fixture that skips the whole class)
        nodes = [n for m in spec['modules'] for n in _case_nodes(m['tree'])]
        node = nodes[draw(st.integers(0, len(nodes) - 1))]
        node['wrap'] = 'suitelike'
        node['class_skip'] = draw(st.booleans())
    if draw(st.booleans()):
        gen.add_outputs(draw, spec, prob=40, bad_bytes=False)
    # tests that touch the same interpreter state themselves
    for t in tests:
        r = draw(st.integers(0, 15))
        act = {0: ['warn_filter', 'simple'], 1: ['warn_filter', 'message'], 2: ['settrace_cycle'], 3: ['chdir', '/'],
               4: ['garbage', 'bad_repr'], 5: ['garbage', 'plain'], 6: ['warn_filter', 'rebind']}.get(r)
        if act:
            t.setdefault('acts', {}).setdefault(draw(st.sampled_from(['setUp', 'body', 'tearDown'])), []).append(act)
    if draw(st.integers(0, 5)) == 0:
        spec['modules'][0].setdefault('acts', []).append(['warn_filter', 'simple'])
    o = {}
    if draw(st.booleans()):
        o['gc'] = draw(st.lists(st.integers(0, 900), min_size=1, max_size=3))
    if draw(st.booleans()):
        o['G'] = draw(st.lists(st.sampled_from(GC_FLAGS), min_size=1, max_size=3, unique=True))
    o['coverage'] = draw(st.sampled_from([False, False, True]))
    o['profile'] = draw(st.sampled_from([False, False, True]))
    o['profile_rel'] = draw(st.booleans())      # default (relative) profile directory
    o['buffer'] = draw(st.booleans()) or ending == 'leaked-stream'
    # (the post-mortem loop is a second implementation of the per-test bracket: interrupts are drawn with it more often)
    o['post_mortem'] = draw(st.sampled_from([False, True] if ending.startswith('kbd-') else [False, False, False, True]))
    o['warnings'] = draw(st.sampled_from([None, 'default', 'error', 'ignore', 'always']))
    o['stop'] = ending == 'stop-on-error' or draw(st.sampled_from([False, False, True]))
    if ending == 'stop-on-error':
        victim['k'] = 'fail'
    o['verbose'] = draw(st.sampled_from([0, 1, 2, 4]))
    o['gc_after_test'] = draw(st.sampled_from([False, False, True]))
    o['repeat'] = draw(st.sampled_from([1, 1, 2]))
    init = {
        'gc_threshold': draw(st.sampled_from([None, [700, 10, 10], [123, 4, 5], [0, 0, 0], [5000, 50, 100]])),
        # (an embedding program hunting leaks has DEBUG_SAVEALL set; the worker empties gc.garbage after every case)
        'gc_debug': draw(st.sampled_from([0, 0, gc.DEBUG_UNCOLLECTABLE, gc.DEBUG_SAVEALL,
                                          gc.DEBUG_SAVEALL | gc.DEBUG_UNCOLLECTABLE])),
        'filters': draw(st.integers(0, 3)),
        'patched_tb': draw(st.booleans()),
        'trace': draw(st.booleans()) and not o['coverage'] and not o['post_mortem'],
        'profile': draw(st.booleans()) and not o['profile'],
        'thr_trace': draw(st.booleans()) and not o['coverage'],
        'thr_profile': draw(st.booleans()),
        'warnoptions': draw(st.sampled_from([False, False, True])),   # the interpreter was started with -W ...
    }
    if any(a[0] == 'settrace_cycle' for t in tests for acts in (t.get('acts') or {}).values() for a in acts):
        # (a test that clears the trace function itself would clear a pre-existing one too: not the runner's doing)
        init['trace'] = False
    return {'spec': spec, 'opts': o, 'init': init, 'ending': ending}


def _case_nodes(node):
    if node['t'] == 'c':
        yield node
    for ch in node.get('ch') or ():
        yield from _case_nodes(ch)


def _noop_trace(frame, event, arg):
    return None


def _noop_profile(frame, event, arg):
    return None


def _my_format_exception(*a, **k):
    return ['patched\n']


def _my_print_exception(*a, **k):
    return None


def snapshot():
    return {
        'gc.get_threshold()': gc.get_threshold(),
        'gc.get_debug()': gc.get_debug(),
        'traceback.format_exception': traceback.format_exception,
        'traceback.print_exception': traceback.print_exception,
        'sys.gettrace()': sys.gettrace(),
        'sys.getprofile()': sys.getprofile(),
        'threading.gettrace()': threading.gettrace(),
        'threading.getprofile()': threading.getprofile(),
        'sys.settrace': sys.settrace,
        'warnings.filters': list(warnings.filters),
        'sys.stdout': sys.stdout,
        'sys.stderr': sys.stderr,
    }


class InProc(Part):
    name = 'inproc'
    examples = {'quick': 1600, 'thorough': 25000}

    def strategy(self, tier):
        return cases()

    def execute(self, case):
        spec = common.with_prefix(case['spec'])
        o = case['opts']
        init = case['init']
        tmp = tempfile.mkdtemp(prefix='ztv-c18-', dir=drive.tmp_root())
        args = []
        for g in o.get('gc') or ():
            args += ['--gc', str(g)]
        for f in o.get('G') or ():
            args += ['-G', f]
        if o.get('coverage'):
            args += ['--coverage', os.path.join(tmp, 'cov')]
        if o.get('profile'):
            args += ['--profile', 'cProfile'] + ([] if o.get('profile_rel') else ['--profile-directory', tmp])
        if o.get('post_mortem'):
            args.append('-D')
        if o.get('gc_after_test'):
            args.append('--gc-after-test')
        args += common.args_of({'buffer': o.get('buffer'), 'stop': o.get('stop'), 'verbose': o.get('verbose', 0),
                                'repeat': o.get('repeat', 1), 'list': case['ending'] == 'list-tests'})
        state = {}
        saved = {'thr': gc.get_threshold(), 'dbg': gc.get_debug(), 'filters': list(warnings.filters),
                 'tb': (traceback.format_exception, traceback.print_exception), 'warnoptions': list(sys.warnoptions)}

        def before():
            # the generated *initial* state, installed after the driver replaced the std streams
            if init.get('warnoptions'):
                sys.warnoptions[:] = ['default::ImportWarning']
            if init['gc_threshold']:
                gc.set_threshold(*init['gc_threshold'])
            gc.collect()       # (the harness' own garbage must not end up in gc.garbage under DEBUG_SAVEALL)
            gc.set_debug(init['gc_debug'])
            for k in range(init['filters']):
                warnings.filterwarnings('ignore', message='ztv-c18-%d' % k)
            if init['patched_tb']:
                traceback.format_exception = _my_format_exception
                traceback.print_exception = _my_print_exception
            if init['thr_trace']:
                threading.settrace(_noop_trace)
            if init['thr_profile']:
                threading.setprofile(_noop_profile)
            if init['profile']:
                sys.setprofile(_noop_profile)
            if init['trace']:
                sys.settrace(_noop_trace)
            state['before'] = snapshot()

        viol = []
        try:
            # run_inproc restores the harness' own baseline in its finally clause; the comparison must happen
            # before that, so it is done in a wrapper around Runner.run via 'after' below
            run = _run(spec, args, before, state, o)
        finally:
            sys.settrace(None)
            sys.setprofile(None)
            threading.settrace(None)
            threading.setprofile(None)
            gc.set_threshold(*saved['thr'])
            gc.set_debug(saved['dbg'])
            warnings.filters[:] = saved['filters']
            if hasattr(warnings, '_filters_mutated'):
                warnings._filters_mutated()
            traceback.format_exception, traceback.print_exception = saved['tb']
            sys.warnoptions[:] = saved['warnoptions']
            shutil.rmtree(tmp, ignore_errors=True)
            del gc.garbage[:]
        b, a = state.get('before'), state.get('after')
        labels = ['ending:' + case['ending']]
        if run.exc is not None:
            labels.append('aborted:' + type(run.exc).__name__)
            if isinstance(run.exc, SystemExit) and not any(e['ev'] in ('T', 'L') for e in run.trace):
                # option error before the test phase: outside the statement
                return Outcome([], labels + ['exit-before-test-phase'], False)
            if not any(e['ev'] in ('T', 'L') for e in run.trace):
                return Outcome([], labels + ['abort-before-test-phase'], False)
        if b is None or a is None:
            return Outcome([('C18/harness', 'no snapshot')], labels, False)
        for k in b:
            same = (a[k] == b[k]) if k in ('gc.get_threshold()', 'gc.get_debug()', 'warnings.filters') else (a[k] is b[k])
            if not same:
                viol.append(('C18/not-restored/%s' % k, '%s was %r before the run and is %r after it (ending %s, options %s)'
                             % (k, b[k], a[k], case['ending'], args)))
        nchg = sum(bool(o.get(k)) for k in ('gc', 'G', 'coverage', 'profile', 'buffer', 'post_mortem')) + \
            (o.get('warnings') is not None)
        abnormal = case['ending'] != 'pass'
        for k in ('gc', 'G', 'coverage', 'profile', 'buffer', 'post_mortem'):
            if o.get(k):
                labels.append('opt:' + k)
        garbage = any(a[0] == 'garbage' for _, t in gen.iter_tests(case['spec']) for acts in (t.get('acts') or {}).values()
                      for a in acts)
        if any(n.get('wrap') for m in case['spec']['modules'] for n in _case_nodes(m['tree'])):
            labels.append('suite-like-test-object')
        if garbage and o.get('gc_after_test') and o.get('verbose', 0) >= 4:
            labels.append('cycle-report-of-left-garbage')
        return Outcome(viol, labels, (nchg >= 2 and abnormal) or 'cycle-report-of-left-garbage' in labels)


def _run(spec, args, before, state, o):
    """run_inproc with a snapshot taken right after Runner.run() returns or raises"""
    from zope.testrunner import runner as zrunner
    orig_run = zrunner.Runner.run

    def run_and_snapshot(self):
        try:
            return orig_run(self)
        finally:
            state['after'] = snapshot()
    zrunner.Runner.run = run_and_snapshot
    try:
        return drive.run_inproc(spec, args, before=before, stdin=io.StringIO('c\n' * 200),
                                warnings_arg=o.get('warnings'))
    finally:
        zrunner.Runner.run = orig_run


class C18(Prop):
    id = 'C18'
    registered = True
    technique = ('Hypothesis-generated option subsets x run endings x initial interpreter states; snapshot-before / '
                 'snapshot-after equality oracle around Runner.run()')
    level_text = ('Every subset of {--gc, -G, --coverage, --profile, --buffer, -D, warnings argument, --gc-after-test} is '
                  'combined with eleven ways the test phase can end (all pass, failures, exception or KeyboardInterrupt from '
                  'a layer testSetUp/testTearDown, KeyboardInterrupt in a test\'s setUp/body/tearDown, -x, failing layer '
                  'setUp/tearDown, a failing test that leaves sys.stdout/stderr rebound under --buffer) and a generated initial state (gc thresholds/flags, extra warnings filters, pre-patched '
                  'traceback functions, trace/profile hooks); the listed items are compared right after Runner.run() '
                  'returns or raises.')
    level_note = ('Only the items the statement lists are compared; non-None initial sys trace/profile hooks are only '
                  'generated when --coverage/--profile/-D are absent (two tracers cannot coexist); aborts before the test '
                  'phase are outside the statement.')
    rule = ('Hypothesis cases: world (1..2 layers with all hooks, 1..3 tests) x option subset x ending x initial state. '
            'Non-trivial = >=2 state-changing options AND an abnormal ending. Distinct by hash of the case.')
    assumptions = ('the snapshot is taken in a finally clause wrapped around Runner.run()',)
    parts = (InProc(),)


PROP = C18()
