"""C20 - DiGraph.sccs computes the strongly connected components.

Oracle: reachability closure (Warshall) gives the reference partition; ``sccs(True)`` must yield every
reference component exactly once and nothing else, ``sccs()`` exactly those with >1 node or a self-loop.
"""
import itertools

from hypothesis import strategies as st

from ..engine import Outcome, Part, Prop

ORDERS4 = [p for p in itertools.permutations(range(4))]
NODE_TYPES = ('int', 'str', 'obj', 'raw_int', 'raw_str', 'raw_tuple')


class _Node:
    __slots__ = ('i',)

    def __init__(self, i):
        self.i = i

    def __repr__(self):
        return 'N%d' % self.i


def make_nodes(n, ntype):
    """return (nodes, make_hashable, fresh) - fresh(i) builds an equal-but-maybe-not-identical spelling"""
    if ntype in ('int', 'raw_int'):
        nodes = [1000 + 7 * i for i in range(n)]
        fresh = lambda i: int(str(1000 + 7 * i))  # noqa: E731  equal, not identical
    elif ntype in ('str', 'raw_str'):
        nodes = ['node-%d' % i for i in range(n)]
        fresh = lambda i: ''.join(['node-', str(i)])  # noqa: E731
    elif ntype == 'raw_tuple':
        nodes = [('t', i) for i in range(n)]
        fresh = lambda i: ('t', int(str(i)))  # noqa: E731
    else:
        nodes = [_Node(i) for i in range(n)]
        fresh = lambda i: nodes[i]  # noqa: E731
    if ntype.startswith('raw_'):
        mh = None  # nodes used directly as dict keys
    elif ntype == 'obj':
        mh = id
    else:
        # documented alternative: "use a different make_hashable" for value-equal nodes
        mh = (lambda x: x)
    return nodes, mh, fresh


def reference_sccs(n, adj):
    reach = [[(adj[i][j] or i == j) for j in range(n)] for i in range(n)]
    for k in range(n):
        rk = reach[k]
        for i in range(n):
            if reach[i][k]:
                ri = reach[i]
                for j in range(n):
                    if rk[j]:
                        ri[j] = True
    comps = set()
    for i in range(n):
        comps.add(frozenset(j for j in range(n) if reach[i][j] and reach[j][i]))
    return comps


def check_graph(case):
    from zope.testrunner.digraph import DiGraph
    n = case['n']
    adj = [[False] * n for _ in range(n)]
    for a, b in case['edges']:
        adj[a][b] = True
    order = case.get('order') or list(range(n))
    nodes, mh, fresh = make_nodes(n, case['ntype'])
    index = {}
    viol = []
    try:
        if case.get('ctor_nodes', True):
            g = DiGraph([nodes[i] for i in order], make_hashable=mh)
        else:
            g = DiGraph(make_hashable=mh)
            g.add_nodes(nodes[i] for i in order)
        for i in order:
            nbs = [fresh(j) for j in range(n) if adj[i][j]]
            if case.get('nb_rev'):
                nbs.reverse()
            if case.get('unknown'):
                # edges to nodes that are not part of the graph (ignored by default)
                nbs = nbs + ([_Node(99)] if case['ntype'] == 'obj' else
                             [fresh(n + 5)] if True else [])
            if not nbs and not case.get('sink_calls', True):
                continue
            if case.get('split') and len(nbs) > 1:
                g.add_neighbors(nodes[i], nbs[:1])
                g.add_neighbors(fresh(i) if case['ntype'] != 'obj' else nodes[i], nbs[1:])
            else:
                g.add_neighbors(nodes[i], nbs)
        for i, nd in enumerate(nodes):
            index[id(nd) if case['ntype'] == 'obj' else nd] = i

        def to_idx(comp):
            return [index[id(x) if case['ntype'] == 'obj' else x] for x in comp]

        all_c = [to_idx(c) for c in g.sccs(True)]
        cyc_c = [to_idx(c) for c in g.sccs()]
    except Exception as e:  # noqa: BLE001 - any exception from the component enumeration is a violation
        return [('C20/exception/%s' % type(e).__name__,
                 '%s: %s on n=%d edges=%s' % (type(e).__name__, e, n, case['edges']))], adj
    ref = reference_sccs(n, adj)
    got_all = [frozenset(c) for c in all_c]
    if any(len(set(c)) != len(c) for c in all_c + cyc_c):
        viol.append(('C20/duplicate-node-in-component', 'component lists a node twice: %s' % (all_c,)))
    if len(got_all) != len(set(got_all)):
        viol.append(('C20/component-yielded-twice', 'sccs(True) yielded a component twice: %s' % (all_c,)))
    if set(got_all) != ref:
        viol.append(('C20/wrong-partition', 'sccs(True)=%s reference=%s edges=%s'
                     % (sorted(map(sorted, got_all)), sorted(map(sorted, ref)), case['edges'])))
    ref_cyc = {c for c in ref if len(c) > 1 or adj[next(iter(c))][next(iter(c))]}
    got_cyc = [frozenset(c) for c in cyc_c]
    if len(got_cyc) != len(set(got_cyc)) or set(got_cyc) != ref_cyc:
        viol.append(('C20/wrong-cycles', 'sccs()=%s reference cycles=%s edges=%s'
                     % (sorted(map(sorted, got_cyc)), sorted(map(sorted, ref_cyc)), case['edges'])))
    return viol, (ref, ref_cyc)


def outcome_for(case):
    viol, info = check_graph(case)
    labels = [case['ntype']]
    nontrivial = False
    if isinstance(info, tuple):
        ref, ref_cyc = info
        big = any(len(c) > 1 for c in ref)
        trivial = len(ref) > len(ref_cyc)
        nontrivial = big and trivial
        if big:
            labels.append('cycle>=2')
        if trivial:
            labels.append('has-trivial-component')
        if any(len(c) == 1 for c in ref_cyc):
            labels.append('self-loop-component')
        if not case.get('sink_calls', True):
            labels.append('sinks-without-add_neighbors')
        if case.get('unknown'):
            labels.append('edges-to-unknown-nodes')
    return Outcome(viol, labels, nontrivial)


def graph_from_bits(n, bits):
    return [[i, j] for i in range(n) for j in range(n) if bits >> (i * n + j) & 1]


class Exhaustive(Part):
    name = 'exhaustive'
    examples = {}
    exhaustive_note = ('every digraph with self-loops on n<=4 nodes; quick: n<=3 in every variant '
                       '(6 insertion orders x 6 node kinds x sink/unknown/split flags) and all 65536 '
                       'graphs on 4 nodes in 4 variants; thorough: n=4 in 24 orders x 6 node kinds x flags')

    def enumerate(self, tier, w, nworkers):
        k = 0
        flagsets = [dict(sink_calls=s, unknown=u, split=sp, ctor_nodes=c)
                    for s in (True, False) for u in (False, True) for sp in (False, True)
                    for c in (True, False)]
        for n in (0, 1, 2, 3):
            for bits in range(1 << (n * n)):
                edges = graph_from_bits(n, bits)
                for order in itertools.permutations(range(n)):
                    for nt in NODE_TYPES:
                        for fl in flagsets:
                            k += 1
                            if k % nworkers != w:
                                continue
                            yield dict(n=n, edges=edges, order=list(order), ntype=nt, **fl)
        n = 4
        if tier == 'quick':
            variants = [
                dict(order=[0, 1, 2, 3], ntype='obj', sink_calls=True, unknown=False),
                dict(order=[3, 1, 0, 2], ntype='raw_int', sink_calls=False, unknown=False),
                dict(order=[2, 3, 1, 0], ntype='str', sink_calls=True, unknown=True, split=True),
                dict(order=[1, 0, 3, 2], ntype='obj', sink_calls=False, unknown=True,
                     ctor_nodes=False, nb_rev=True),
            ]
        else:
            variants = []
            for oi, order in enumerate(ORDERS4):
                for ti, nt in enumerate(NODE_TYPES):
                    variants.append(dict(order=list(order), ntype=nt,
                                         sink_calls=bool((oi + ti) % 2), unknown=bool((oi // 2 + ti) % 2),
                                         split=bool((oi // 4 + ti) % 2), ctor_nodes=bool((oi + ti // 2) % 2),
                                         nb_rev=bool(oi % 3 == 0)))
        for bits in range(1 << 16):
            if bits % nworkers != w:
                continue
            edges = graph_from_bits(4, bits)
            for v in variants:
                yield dict(n=4, edges=edges, **v)

    def execute(self, case):
        return outcome_for(case)


@st.composite
def random_graph(draw):
    n = draw(st.integers(5, 14))
    style = draw(st.sampled_from(['sparse', 'dense', 'chain', 'cycles']))
    if style == 'sparse':
        edges = draw(st.lists(st.tuples(st.integers(0, n - 1), st.integers(0, n - 1)),
                              max_size=2 * n, unique=True))
    elif style == 'dense':
        edges = draw(st.lists(st.tuples(st.integers(0, n - 1), st.integers(0, n - 1)),
                              min_size=n, max_size=n * n // 2, unique=True))
    elif style == 'chain':
        perm = draw(st.permutations(range(n)))
        edges = [(perm[i], perm[i + 1]) for i in range(n - 1)]
        edges += draw(st.lists(st.tuples(st.integers(0, n - 1), st.integers(0, n - 1)),
                               max_size=4, unique=True))
    else:
        perm = draw(st.permutations(range(n)))
        cuts = sorted(draw(st.lists(st.integers(1, n - 1), max_size=4, unique=True)))
        edges, start = [], 0
        for c in cuts + [n]:
            grp = perm[start:c]
            start = c
            if len(grp) > 1:
                edges += [(grp[i], grp[(i + 1) % len(grp)]) for i in range(len(grp))]
        edges += draw(st.lists(st.tuples(st.integers(0, n - 1), st.integers(0, n - 1)),
                               max_size=5, unique=True))
    edges = sorted({(int(a), int(b)) for a, b in edges})
    return dict(n=n, edges=[list(e) for e in edges],
                order=list(draw(st.permutations(range(n)))),
                ntype=draw(st.sampled_from(NODE_TYPES)),
                sink_calls=draw(st.booleans()), unknown=draw(st.booleans()),
                split=draw(st.booleans()), ctor_nodes=draw(st.booleans()),
                nb_rev=draw(st.booleans()))


class Random(Part):
    name = 'random'
    examples = {'quick': 4000, 'thorough': 150000}

    def strategy(self, tier):
        return random_graph()

    def execute(self, case):
        return outcome_for(case)


# ----------------------------------------------------------------------------------------------------
# histories: the graph is described step by step, containers handed over are the caller's, components are enumerated
# at any point and more than once


@st.composite
def history_cases(draw):
    n = draw(st.integers(2, 7))
    ids = st.integers(0, n - 1)
    kinds = st.sampled_from(['list', 'tuple', 'set', 'set', 'frozenset', 'iter', 'scratch', 'scratch'])
    after = st.sampled_from(['keep', 'keep', 'clear', 'add'])
    ops = []
    first = draw(st.lists(ids, min_size=1, max_size=n, unique=True))
    ops.append(['nodes', first, draw(kinds), draw(after), draw(ids)])
    for _ in range(draw(st.integers(2, 14))):
        what = draw(st.sampled_from(['nbs', 'nbs', 'nbs', 'nbs', 'nodes', 'sccs', 'sccs']))
        if what == 'nbs':
            ops.append(['nbs', draw(ids), draw(st.lists(ids, max_size=4, unique=True)), draw(kinds), draw(after),
                        draw(ids)])
        elif what == 'nodes':
            ops.append(['nodes', draw(st.lists(ids, min_size=1, max_size=3, unique=True)), draw(kinds), draw(after),
                        draw(ids)])
        else:
            ops.append(['sccs', draw(st.booleans())])
    ops.append(['sccs', True])
    ops.append(['sccs', False])
    return {'n': n, 'ops': ops, 'ntype': draw(st.sampled_from(['raw_int', 'raw_str', 'raw_tuple', 'obj', 'int', 'str'])),
            'ctor': draw(st.booleans())}


def run_history(case):
    from zope.testrunner.digraph import DiGraph
    n = case['n']
    nodes, mh, fresh = make_nodes(n, case['ntype'])
    obj = case['ntype'] == 'obj'
    index = {(id(nd) if obj else nd): i for i, nd in enumerate(nodes)}
    known, adj = set(), {}
    scratch = set()
    viol, labels = [], set()
    nsccs = 0

    def container(idx, kind, for_nodes):
        items = [nodes[i] if (obj or for_nodes) else fresh(i) for i in idx]
        if kind == 'list':
            return list(items)
        if kind == 'tuple':
            return tuple(items)
        if kind == 'set':
            return set(items)
        if kind == 'frozenset':
            return frozenset(items)
        if kind == 'iter':
            return iter(items)
        scratch.clear()
        scratch.update(items)
        labels.add('scratch-set-reused')
        return scratch

    def afterwards(c, how, extra):
        # the container still belongs to the caller
        if how == 'keep' or not isinstance(c, (list, set)):
            return
        labels.add('container-changed-afterwards')
        if how == 'clear':
            c.clear()
        elif isinstance(c, list):
            c.append(nodes[extra])
        else:
            c.add(nodes[extra])

    g = None
    try:
        for op in case['ops']:
            if op[0] == 'nodes':
                _, idx, kind, how, extra = op
                c = container(idx, kind, True)
                if g is None:
                    if case['ctor']:
                        g = DiGraph(c, make_hashable=mh)
                    else:
                        g = DiGraph(make_hashable=mh)
                        g.add_nodes(c)
                else:
                    g.add_nodes(c)
                    if nsccs:
                        labels.add('nodes-added-after-enumeration')
                known |= set(idx)
                afterwards(c, how, extra)
            elif op[0] == 'nbs':
                _, i, idx, kind, how, extra = op
                c = container(idx, kind, False)
                g.add_neighbors(nodes[i], c)
                if i in known:
                    adj.setdefault(i, set()).update(j for j in idx if j in known)
                    if nsccs:
                        labels.add('edges-added-after-enumeration')
                afterwards(c, how, extra)
            else:
                trivial = op[1]
                nsccs += 1
                got = [[index[id(x) if obj else x] for x in comp] for comp in g.sccs(trivial)]
                order = sorted(known)
                pos = {k: p for p, k in enumerate(order)}
                m = [[False] * len(order) for _ in order]
                for a, bs in adj.items():
                    for b in bs:
                        m[pos[a]][pos[b]] = True
                ref = {frozenset(order[p] for p in comp) for comp in reference_sccs(len(order), m)}
                if not trivial:
                    ref = {c for c in ref if len(c) > 1 or next(iter(c)) in adj.get(next(iter(c)), ())}
                gs = [frozenset(c) for c in got]
                if any(len(set(c)) != len(c) for c in got) or len(gs) != len(set(gs)):
                    viol.append(('C20/component-yielded-twice', 'enumeration %d, sccs(%s) = %s' % (nsccs, trivial, got)))
                elif set(gs) != ref:
                    viol.append(('C20/wrong-partition' if trivial else 'C20/wrong-cycles',
                                 'enumeration %d after %s: sccs(%s) = %s, reference %s'
                                 % (nsccs, case['ops'], trivial, sorted(map(sorted, gs)), sorted(map(sorted, ref)))))
                if viol:
                    break
    except Exception as e:  # noqa: BLE001 - no step of a legal history may raise
        viol.append(('C20/exception/%s' % type(e).__name__, '%s: %s in history %s' % (type(e).__name__, e, case['ops'])))
    return Outcome(viol, sorted(labels) + [case['ntype']], len(labels) >= 1 and len(adj) >= 2)


class History(Part):
    """step-by-step descriptions of a graph: nodes and neighbours added in any order and in several calls, handed over in
    the caller's own containers (lists, sets, one-shot iterators, one scratch set that is re-used for every call, containers
    changed by the caller afterwards), components enumerated in between and again at the end; reference = Warshall closure of
    a model that follows the documented meaning of every call"""
    name = 'history'
    examples = {'quick': 4000, 'thorough': 150000}

    def strategy(self, tier):
        return history_cases()

    def execute(self, case):
        return run_history(case)


class Fuzz(Part):
    """thorough tier: atheris (libFuzzer) with coverage feedback from digraph.py, same oracle inside the target; one
    campaign per worker, each from an empty corpus with its own libFuzzer seed.  If atheris cannot be imported the part
    is skipped (labelled), never a failure."""
    name = 'fuzz'
    examples = {}
    RUNS = 60000

    def enumerate(self, tier, w, nworkers):
        if tier == 'thorough':
            import os
            yield {'fuzz': True, 'runs': self.RUNS, 'seed': 1 + w + 1000 * int(os.environ.get('VERIF_SEED', '0') or 0)}

    def execute(self, case):
        import json
        import os
        import shutil
        import subprocess
        import sys
        import tempfile
        from .. import boot
        work = tempfile.mkdtemp(prefix='ztv-c20-fuzz-')
        try:
            script = os.path.join(boot.VERIF_DIR, 'ztv', 'props', 'c20_fuzz.py')
            p = subprocess.run([sys.executable, '-W', 'ignore', script, str(case['runs']), str(case['seed']), work],
                               stdout=subprocess.PIPE, stderr=subprocess.STDOUT, timeout=3000)
            out = p.stdout.decode('utf-8', 'replace')
            if 'ZTV-NO-ATHERIS' in out:
                return Outcome([], ['atheris-not-installed'], False)
            viol = []
            for line in out.splitlines():
                if line.startswith('ZTV-VIOLATION '):
                    d = json.loads(line[len('ZTV-VIOLATION '):])
                    viol += [(s, '%s [atheris input decoded to %s]' % (m, json.dumps(d['case']))) for s, m in d['viol']]
            stats = {}
            try:
                with open(os.path.join(work, 'stats.json')) as f:
                    stats = json.load(f)
            except (OSError, ValueError):
                pass
            if p.returncode != 0 and not viol:
                from ..engine import HarnessError
                raise HarnessError('atheris campaign ended with status %s: %s' % (p.returncode, out[-400:]))
            labels = ['atheris-campaign', 'execs~%dk' % (stats.get('execs', 0) // 1000),
                      'distinct-nontrivial~%dk' % (stats.get('distinct', 0) // 1000)]
            return Outcome(viol, labels, stats.get('distinct', 0) > 0)
        finally:
            shutil.rmtree(work, ignore_errors=True)


class C20(Prop):
    id = 'C20'
    registered = True
    technique = ('exhaustive small-scope enumeration + Hypothesis random graphs + model-based call histories + (thorough) coverage-guided atheris campaigns '
                 'vs. reachability-closure oracle')
    level_text = 'Every digraph on <=4 nodes (with self-loops) is enumerated in several insertion orders / node kinds / call patterns and compared with an independent reference partition; Hypothesis graphs of 5..14 nodes extend this beyond the bound; generated call histories (incremental description, caller-owned containers, repeated enumeration) are compared with a model after every enumeration. Exhaustive inside the bound, sampled beyond.'
    level_note = 'Trusts the Warshall-closure reference implementation in ztv/props/c20.py and CPython set/dict semantics.'
    rule = ('exhaustive part: all digraphs with self-loops on <=4 nodes, each built in several node '
            'insertion orders, with int/str/tuple (value-keyed) and object (identity-keyed) nodes, with and '
            'without add_neighbors calls for sink nodes, with edges to unknown nodes; random part: Hypothesis '
            'graphs with 5..14 nodes (sparse/dense/chain/planted-cycle styles). Non-trivial = the graph has a '
            'component with >=2 nodes AND a trivial component (single node, no self-loop). history part: generated call '
            'histories (add_nodes / add_neighbors in any order and in several calls, containers that stay the caller\'s: '
            're-used scratch set, containers changed afterwards, one-shot iterators; sccs() in between and repeatedly) '
            'against a model of the documented meaning of every call; non-trivial = a re-used / changed container or a '
            'change after an enumeration, and >=2 nodes with edges. Enumerated cases '
            'are distinct by construction and counted; generated cases are de-duplicated by hash.')
    assumptions = ('reference partition computed by Warshall reachability closure (independent of Tarjan)',
                   'value-equal nodes (int/str/tuple) are used with make_hashable=None or identity function, as '
                   'the class docstring prescribes for such node types')
    parts = (Exhaustive(), Random(), History(), Fuzz())

    def hashseed(self, w):
        return str(w % 4)  # str nodes under 4 different hash seeds


PROP = C20()
