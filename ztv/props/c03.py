"""C03 - exactly the selected tests run, once each, and every mode agrees on them."""
import copy
from collections import Counter

from hypothesis import strategies as st

from .. import drive, gen, model, parse, traceana
from ..engine import Outcome, Part, Prop
from . import common


@st.composite
def cases(draw):
    spec = draw(gen.worlds(max_layers=4, min_layers=1, hooks='layer', kinds=('pass', 'pass', 'pass', 'fail', 'skip_body',
                                                                                'skip_deco', 'error'),
                           max_modules=3, depth=3, max_tests=3, levels=True, inst_attrs=True, explicit_unit=True,
                           layer_decl=60, max_children=3))
    for L in spec['layers']:
        if draw(st.booleans()):
            L['hooks'] = sorted(set(L['hooks']) | {'setUp', 'tearDown'}, key=gen.HOOKS.index)
    if draw(st.integers(0, 3)) == 0:
        # free-text layer names of which one, read as a regular expression, matches another one
        for L, nm in zip(spec['layers'], draw(st.permutations(CONFUSABLE))):
            L['name'] = nm
    for m in spec['modules']:
        for node in _case_nodes(m['tree']):
            if draw(st.integers(0, 7)) == 0:
                node['falsy'] = True        # test objects that are false in a boolean context
    if draw(st.integers(0, 5)) == 0:
        # a module that switches its tests off: it defines test case classes, but its test_suite() returns an empty suite
        src = spec['modules'][draw(st.integers(0, len(spec['modules']) - 1))]
        off = {'name': 'e', 'style': 'empty_suite', 'tree': copy.deepcopy(src['tree'])}
        k = [0]

        def rename(node):
            if node['t'] == 'c':
                k[0] += 1
                node['name'] = 'TE%d' % k[0]
            for ch in node.get('ch') or ():
                rename(ch)
        rename(off['tree'])
        spec['modules'].append(off)
    lnames = [L['name'] for L in spec['layers']]
    mnames = [m['name'] for m in spec['modules']]
    tnames = sorted({t['n'] for _, t in gen.iter_tests(spec)})
    # some modules live in (nested) packages; some of the packages are searched a second time through
    # --package-path DIR dotted.name, i.e. the same files are reached through overlapping search roots
    for m in spec['modules']:
        # ('pkx' extends the name 'pk': sibling packages whose directory names are prefixes of each other)
        pkg = draw(st.sampled_from([None, None, None, 'pk', 'pk', 'pk.sub', 'qk', 'pkx', 'pkx']))
        if pkg:
            m['pkg'] = pkg
    used = sorted({m['pkg'] for m in spec['modules'] if m.get('pkg')})
    if used and draw(st.booleans()):
        spec['package_paths'] = draw(st.lists(st.sampled_from(used + ['pk']), min_size=1, max_size=2, unique=True))
        if 'pk' in spec['package_paths'] and 'pk' not in used and 'pk.sub' not in used:
            spec['package_paths'].remove('pk')

    def pats(words, extra):
        base = st.one_of(st.sampled_from(list(words) + list(extra)), st.sampled_from(list(words)).map(lambda s: s + '$'))
        return st.lists(st.one_of(base, base, base.map(lambda p: '!' + p)), max_size=2)
    opts = {}
    if draw(st.booleans()):
        opts['test'] = draw(pats(tnames, ['test_[a-c]', r'TC\d', '.']))
    if draw(st.integers(0, 2)) == 0:
        opts['module'] = draw(pats(['t_' + m for m in mnames], ['t_[ab]$']))
    if draw(st.integers(0, 2)) == 0:
        opts['layer'] = draw(common.layer_pattern_strategy(lnames + ['UnitTests']))
    lv = draw(st.sampled_from(['default', 'default', 'all', 'at2', 'at0', 'only1', 'only2']))
    if lv == 'all':
        opts['all'] = True
    elif lv.startswith('at'):
        opts['at_level'] = int(lv[2:])
    elif lv.startswith('only'):
        opts['only_level'] = int(lv[4:])
    uf = draw(st.sampled_from(['', '', '', 'u', 'f', 'uf']))
    opts['unit'] = 'u' in uf
    opts['non_unit'] = 'f' in uf
    if used and draw(st.integers(0, 3)) == 0:
        opts['package'] = draw(st.lists(st.sampled_from(used), min_size=1, max_size=2, unique=True))
    if len(spec['modules']) >= 2 and draw(st.integers(0, 7)) == 0:
        # two sibling packages, the second one's name extending the first one's, both selected with -s in that order
        spec['modules'][0]['pkg'], spec['modules'][1]['pkg'] = 'pk', 'pkx'
        opts['package'] = ['pk', 'pkx']
        if 'pk.sub' in (spec.get('package_paths') or ()) and not any(m.get('pkg') == 'pk.sub' for m in spec['modules']):
            spec['package_paths'].remove('pk.sub')
    if draw(st.integers(0, 4)) == 0:
        opts['positional'] = ['.', draw(st.sampled_from(tnames))]
    opts['repeat'] = draw(st.sampled_from([1, 1, 2]))
    opts['shuffle'] = draw(st.one_of(st.none(), st.integers(0, 9999)))
    mode = draw(st.sampled_from(['j2', 'j3', 'j1-resume', 'resume']))
    return {'spec': spec, 'opts': opts, 'mode': mode, 'verbose': draw(st.integers(0, 2)),
            'relpath': draw(st.sampled_from([False, False, True]))}


def _case_nodes(node):
    if node['t'] == 'c':
        yield node
    for ch in node.get('ch') or ():
        yield from _case_nodes(ch)


CONFUSABLE = ['L.A', 'LXA', 'L+', 'L', 'LL', 'L(1)', 'L1', 'L[A]', 'LA', 'L|A', 'L.*', 'L?A']


def pkg_args(spec, opts):
    args = []
    for pkg in opts.get('package') or ():
        args += ['-s', '.'.join(spec['mp'] + part for part in pkg.split('.'))]
    if opts.get('positional'):
        # the deprecated positional spelling "MODULE TEST" of the filters ('.' = any module), given besides the options
        args += list(opts['positional'])
    return args


def expected(spec, opts):
    at = opts.get('at_level')
    tests = list(opts.get('test') or ())
    if opts.get('positional'):
        tests.append(opts['positional'][1])
    return model.select(spec, test_pats=tests or None, module_pats=opts.get('module') or None,
                        packages=opts.get('package') or None,
                        layer_pats=opts.get('layer') or None, at_level=1 if at is None else at,
                        all_levels=bool(opts.get('all')), only_level=opts.get('only_level'),
                        unit=bool(opts.get('unit')), non_unit=bool(opts.get('non_unit')))


def executed(w, run):
    """(Counter of test strs, per-pid list of (layer, str) in order)"""
    c = Counter()
    per_pid = {}
    for e in run.trace:
        if e['ev'] == 'T' and e['ph'] == 'run':
            rec = w.tests.get(e['id'])
            if rec is None:
                continue
            c[rec['str']] += 1
            per_pid.setdefault(e['pid'], []).append((rec['layer_name'], rec['str']))
    return c, per_pid


def check_run(tag, spec, w, run, want, repeat, viol):
    viol += [(s + '/' + tag, m) for s, m in common.run_escaped(run, 'C03')]
    if run.exc is not None:
        return None, None
    got, per_pid = executed(w, run)
    exp = Counter({rec['str']: repeat for recs in want.values() for rec in recs})
    if got != exp:
        extra = sorted((got - exp).items())
        missing = sorted((exp - got).items())
        if extra:
            viol.append(('C03/unselected-test-ran/' + tag, 'ran although not selected (or too often): %s'
                         % _s(extra, spec)))
        if missing:
            viol.append(('C03/selected-test-did-not-run/' + tag, 'selected but not run (or too seldom): %s'
                         % _s(missing, spec)))
    # one process per test, and inside a process the tests of one layer form one contiguous group per iteration
    where = {}
    for pid, seq in per_pid.items():
        for ln, s in seq:
            where.setdefault(s, set()).add(pid)
        groups = [ln for k, (ln, s) in enumerate(seq) if k == 0 or seq[k - 1][0] != ln]
        if len(groups) != len(set(groups)):
            viol.append(('C03/layer-group-split/' + tag, 'layer sequence in one process: %s' % groups))
    for s, pids in where.items():
        if len(pids) > 1:
            viol.append(('C03/test-ran-in-several-processes/' + tag, '%s ran in %d processes' % (s, len(pids))))
    return got, per_pid


def _s(items, spec):
    return [(k.replace(spec['mp'], ''), v) for k, v in items]


class Modes(Part):
    name = 'modes'
    examples = {'quick': 480, 'thorough': 6000}

    def strategy(self, tier):
        return cases()

    def execute(self, case):
        opts = case['opts']
        repeat = opts.get('repeat', 1)
        viol = []
        base = case['spec']
        # 1. --list-tests
        spec = common.with_prefix(copy.deepcopy(base))
        w = traceana.World(spec)
        want = expected(spec, opts)
        # (listing is combined with the verbosity and the -j of the other runs: it must stay a pure listing)
        lopts = dict(opts, list=True, verbose=case['verbose'])
        if case['mode'].startswith('j') and case.get('list_j', True):
            lopts['j'] = int(case['mode'][1])
        run_l = drive.run_inproc(spec, common.args_of(lopts) + pkg_args(spec, opts), disk=True)
        viol += [(s + '/list', m) for s, m in common.run_escaped(run_l, 'C03')]
        listed = None
        if run_l.exc is None:
            code = [e for e in run_l.trace if e['ev'] in ('T', 'L')]
            if len(traceana.by_pid(run_l.trace)) > 1:
                viol.append(('C03/list-tests-spawned-processes', '--list-tests involved %d processes'
                             % len(traceana.by_pid(run_l.trace))))
            if code:
                viol.append(('C03/list-tests-ran-code', '--list-tests executed %s' % code[:3]))
            p = parse.parse(run_l.out)
            # (with -j the runner's own placeholder layer is listed with no tests: an empty group lists nothing)
            p.listing = [(ln, names) for ln, names in p.listing if names]
            listed = {ln: names for ln, names in p.listing}
            exp_l = {ln: sorted(r['str'] for r in recs) for ln, recs in want.items()}
            if {ln: sorted(v) for ln, v in listed.items()} != exp_l:
                viol.append(('C03/list-differs-from-selection', 'listed %s, selected %s'
                             % ({k.replace(spec['mp'], ''): len(v) for k, v in listed.items()},
                                {k.replace(spec['mp'], ''): len(v) for k, v in exp_l.items()})))
        # 2. sequential
        run_s = drive.run_inproc(spec, common.args_of(dict(opts, verbose=case['verbose'])) + pkg_args(spec, opts), disk=True)
        got_s, per_pid_s = check_run('sequential', spec, w, run_s, want, repeat, viol)
        if got_s is not None and listed is not None and run_l.exc is None:
            # listed order per layer == executed order per layer (first iteration)
            for pid, seq in per_pid_s.items():
                by_layer = {}
                for ln, s in seq:
                    by_layer.setdefault(ln, []).append(s)
                for ln, names in by_layer.items():
                    first = names[:len(names) // repeat] if repeat > 1 else names
                    if listed.get(ln) != first:
                        viol.append(('C03/list-order-differs-from-run', 'layer %s: listed %s, executed %s'
                                     % (ln.replace(spec['mp'], ''), listed.get(ln), first)))
            seq_layers = [ln for pid, seq in per_pid_s.items() for k, (ln, s) in enumerate(seq)
                          if k == 0 or seq[k - 1][0] != ln]
            if [ln for ln, _ in p.listing] != seq_layers and repeat == 1:
                viol.append(('C03/list-layer-order-differs-from-run', 'listed layers %s, run order %s'
                             % ([ln for ln, _ in p.listing], seq_layers)))
        # 3. the same world with subprocesses
        spec2 = common.with_prefix(copy.deepcopy(base))
        w2 = traceana.World(spec2)
        o2 = dict(opts, verbose=case['verbose'])
        mode = case['mode']
        if mode.startswith('j'):
            o2['j'] = int(mode[1])
        if 'resume' in mode:
            for i, L in enumerate(spec2['layers']):
                if w2.has(i, 'tearDown'):
                    L.setdefault('faults', {})['tearDown'] = 'NIE'
                    break
        want2 = expected(spec2, opts)
        run_p = drive.run_inproc(spec2, common.args_of(o2) + pkg_args(spec2, opts), disk=True)
        got_p, per_pid_p = check_run(mode, spec2, w2, run_p, want2, repeat, viol)
        nchild = len(traceana.by_pid(run_p.trace)) - 1
        if got_s is not None and got_p is not None:
            a = Counter({k.replace(spec['mp'], ''): v for k, v in got_s.items()})
            b = Counter({k.replace(spec2['mp'], ''): v for k, v in got_p.items()})
            if a != b:
                viol.append(('C03/modes-disagree/' + mode, 'sequential ran %d tests, %s ran %d; difference %s'
                             % (sum(a.values()), mode, sum(b.values()), sorted(((a - b) + (b - a)).items())[:5])))
        if got_p is not None and listed is not None and run_l.exc is None:
            # the listing is "precisely the order a run executes" in every mode: inside each process of the -j /
            # resumed run, each layer's tests (first iteration) run in the listed order
            norm_listed = {ln.replace(spec['mp'], ''): [x.replace(spec['mp'], '') for x in names]
                           for ln, names in listed.items()}
            for pid, seq in per_pid_p.items():
                by_layer = {}
                for ln, sname in seq:
                    by_layer.setdefault(ln.replace(spec2['mp'], ''), []).append(sname.replace(spec2['mp'], ''))
                for ln, names in by_layer.items():
                    first = names[:len(names) // repeat] if repeat > 1 else names
                    if norm_listed.get(ln) != first and sorted(norm_listed.get(ln) or []) == sorted(first):
                        viol.append(('C03/list-order-differs-from-run/' + mode, 'layer %s: listed %s, executed %s in the '
                                     '%s run' % (ln, norm_listed.get(ln), first, mode)))
        relrun = False
        if case.get('relpath') and 'resume' in mode:
            # the runner is started from the command line with a *relative* search path, and tests of the layer that
            # cannot be torn down change the working directory: the layers resumed in subprocesses must still find and run
            # their tests
            relrun = True
            spec3 = common.with_prefix(copy.deepcopy(base))
            w3 = traceana.World(spec3)
            for i, L in enumerate(spec3['layers']):
                if w3.has(i, 'tearDown'):
                    L.setdefault('faults', {})['tearDown'] = 'NIE'
            for node, t in gen.iter_tests(spec3):
                t.setdefault('acts', {}).setdefault('body', []).append(['chdir', '/'])
            want3 = expected(spec3, opts)
            with drive.World(spec3) as W:
                from .. import runtime
                run_r = W.run(['--path', 'src', '--tests-pattern', '^%st_' % spec3['mp']]
                              + runtime.package_path_args(spec3, 'src') + common.args_of(o2) + pkg_args(spec3, opts),
                              cwd=W.dir, base_args=False)
            if run_r.timeout or run_r.exit not in (0, 1):
                viol.append(('C03/run-aborted/relative-path-resume', 'exit status %s: %s' % (run_r.exit, run_r.err[-300:])))
            else:
                run_r.exc = None
                check_run('relative-path-' + mode, spec3, w3, run_r, want3, repeat, viol)
        total = sum(1 for _ in gen.iter_tests(base))
        nsel = sum(len(v) for v in want.values())
        labels = [mode] + (['positional-test-filter' + ('+t' if opts.get('test') else '')] if opts.get('positional') else [])
        if relrun:
            labels.append('relative-path+chdir')
            if len(traceana.by_pid(run_r.trace)) > 1:
                labels.append('relative-path+chdir:children')
        if base.get('package_paths'):
            labels.append('package-path')
        if opts.get('package'):
            labels.append('-s')
        if nchild > 0:
            labels.append('children')
        if 0 < nsel < total:
            labels.append('proper-subset')
        if len(want) >= 2:
            labels.append('>=2-layers')
        return Outcome(viol, labels, 0 < nsel < total and len(want) >= 2 and nchild > 0)


class C03(Prop):
    id = 'C03'
    registered = True
    technique = ('Hypothesis-generated worlds x filter/level/unit/repeat/shuffle options; each case run as --list-tests, '
                 'sequentially and with -j N / resumed layers; executed multiset (trace) vs. reference selection and '
                 'across modes')
    level_text = ('For generated source trees (several modules, deep suite nesting, layer/level declarations) and option '
                  'vectors (-t/-m/--layer, levels, -u/-f, --repeat, --shuffle-seed) the selection is computed by the '
                  'reference model; --list-tests must list exactly it, per layer, in the order the sequential run executes, '
                  'without running any test or layer code; the sequential run and a -j N / resumed run must each execute '
                  'exactly selection x repeat, every test in one process and inside one contiguous group per layer.')
    level_note = ('The reference selection (ztv/model.py) is shared with C08/C09; "executed" means TestCase.run was '
                  'called (covers tests skipped by decorator).')
    rule = ('Hypothesis worlds (1..4 layers, 1..3 modules, nesting depth 3, levels -1..4, instance-level declarations, modules in packages, --package-path, -s) x '
            'options; 3 runs per case (list, sequential, one of -j2/-j3/-j1+resume/resume). Non-trivial = the selection is '
            'a proper non-empty subset spanning >=2 layers AND the third run really used child processes.')
    assumptions = ('module import at discovery time is not "running test code"',)
    parts = (Modes(),)


PROP = C03()
