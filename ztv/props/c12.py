"""C12 - reported counts and failure lists equal what actually happened."""
from collections import Counter

from hypothesis import strategies as st

from .. import drive, gen, model, parse, traceana
from ..engine import Outcome, Part, Prop
from . import common


@st.composite
def cases(draw, procs=False):
    faults = draw(st.sampled_from([None, None, None, {'setUp': 12}, {'tearDown': 15}]))
    spec = draw(gen.worlds(max_layers=4, min_layers=1 if procs else 0, hooks='layer', faults=faults,
                           nie=0, kinds=gen.ALL_KINDS, max_modules=2, depth=1, max_tests=4,
                           weights_good=45, layer_decl=80, explicit_unit=True, max_children=3, sub_skip=True))
    if draw(st.integers(0, 2 if procs else 5)) == 0:
        spec = draw(gen.shaped_world(kinds=gen.ALL_KINDS, nie=False))
    for L in spec['layers']:
        if draw(st.integers(0, 99)) < 50:
            L['hooks'] = sorted(set(L['hooks']) | {'setUp', 'tearDown'}, key=gen.HOOKS.index)
    opts = {'verbose': draw(st.integers(0, 3)), 'repeat': draw(st.sampled_from([1, 1, 1, 2, 3])),
            'buffer': draw(st.sampled_from([False, False, True]))}
    if not procs and faults is None and opts['repeat'] == 1 and not spec.get('shaped') and draw(st.integers(0, 3)) == 0:
        # --stop-on-error: what is reported is what happened up to (and including all of) the first bad test
        opts['stop'] = True
    if procs:
        opts['mode'] = draw(st.sampled_from(['j2', 'j3', 'resume']))
        if draw(st.integers(0, 3)) == 0:
            # a module that cannot be imported: counted once in the Total of every mode
            spec['modules'].append({'name': 'x9', 'fail': draw(st.sampled_from(['ImportError', 'ValueError'])),
                                    'tree': {'t': 's', 'ch': []}})
    return {'spec': spec, 'opts': opts}


def expected_counts(spec, w, run_trace, repeat, only_started=False):
    """from the spec (which tests are selected and what events each kind produces) and the trace (which tests
    really started; names of failing subtests as logged by the world)"""
    sel = model.select(spec)
    ok_layers = common.runnable_layers(w, spec)
    per_layer = {}
    fail_names, err_names = Counter(), Counter()
    subfails = {}
    for e in run_trace:
        if e['ev'] == 'T' and e['ph'] == 'subfail':
            subfails.setdefault(e['id'], []).append((e['kind'], e['s']))
    started = {e['id'] for e in run_trace if e['ev'] == 'T' and e['ph'] == 'run'} if only_started else None
    for ln, recs in sel.items():
        li = w.full.get(ln)
        if li != model.UNIT and li not in ok_layers:
            continue
        if started is not None:
            # (-x: the run ends after the first bad test; a test that was started is reported completely)
            recs = [rec for rec in recs if rec['id'] in started]
            if not recs:
                continue
        n = f = er = s = 0
        for rec in recs:
            t = rec['t']
            n += 1
            ef, ee, es, eu = model.events_of(t)
            f += ef + eu
            er += ee
            s += es
            if t['k'] == 'subtests':
                for kind, name in subfails.get(rec['id'], []):
                    (fail_names if kind == 'fail' else err_names)[name] += 1
            else:
                if ef + eu:
                    fail_names[rec['str']] += (ef + eu) * repeat
                if ee:
                    err_names[rec['str']] += ee * repeat
        per_layer[ln] = (n, f, er, s)
    # failed layer hooks
    nlayer_err = 0
    setup_failures = []   # acceptable names per failed setUp: the layer whose hook raised, or a layer derived from it
    for e in run_trace:
        if e['ev'] == 'L' and e['ph'] == 'raise' and e['h'] in ('setUp', 'tearDown') and e.get('exc') != 'NIE':
            nlayer_err += 1
            if e['h'] == 'tearDown':
                err_names['Layer: %slayers.%s.%s' % (spec['mp'], e['layer'], e['h'])] += 1
            else:
                i = w.idx[e['layer']]
                ok = {i} | model.derived_of(spec, i)
                setup_failures.append({'Layer: %slayers.%s.setUp' % (spec['mp'], w.names[j]) for j in ok})
    return per_layer, fail_names, err_names, nlayer_err, setup_failures


def match_setup_failures(reported, setup_failures):
    """remove from the Counter ``reported`` one acceptable name per failed setUp (bipartite matching);
    returns the number of setUp failures that found no acceptable name"""
    names = [n for n, c in reported.items() for _ in range(c) if n.endswith('.setUp') and n.startswith('Layer: ')]
    match = {}

    def try_(k, seen):
        for j, n in enumerate(names):
            if n in setup_failures[k] and j not in seen:
                seen.add(j)
                if j not in match or try_(match[j], seen):
                    match[j] = k
                    return True
        return False
    unmatched = sum(0 if try_(k, set()) else 1 for k in range(len(setup_failures)))
    for j in match:
        reported[names[j]] -= 1
    for n in [n for n, c in reported.items() if c <= 0]:
        del reported[n]
    return unmatched


def oracle(spec, opts, run, tag=''):
    w = traceana.World(spec)
    viol = common.run_escaped(run, 'C12')
    if viol:
        return viol, None
    repeat = opts.get('repeat', 1)
    per_layer, fail_names, err_names, nlayer_err, setup_failures = expected_counts(spec, w, run.trace, repeat,
                                                                                   only_started=bool(opts.get('stop')))
    p = parse.parse(run.out)
    nimp = sum(1 for m in spec['modules'] if m.get('fail'))
    got = {}
    for b in p.blocks:
        got.setdefault(b.layer, []).extend(b.ran)
    for ln, exp in per_layer.items():
        lines = got.get(ln, [])
        for it, g in enumerate(lines):
            # (with import problems the per-layer error figure may include them or not: documented either way)
            if g != exp and not (nimp and (g[0], g[1], g[3]) == (exp[0], exp[1], exp[3]) and g[2] == exp[2] + nimp):
                viol.append(('C12/layer-summary%s' % tag, 'layer %s iteration %d: reported (tests, failures, errors, '
                             'skipped)=%s, happened %s' % (ln.replace(spec['mp'], ''), it + 1, g, exp)))
                break
        if len(lines) != repeat:
            viol.append(('C12/layer-summary-count%s' % tag, 'layer %s: %d summary lines for %d iterations'
                         % (ln, len(lines), repeat)))
    for ln in got:
        if ln not in per_layer and any(g[0] for g in got[ln]):
            viol.append(('C12/summary-for-unexpected-layer%s' % tag, 'layer %s reported %s' % (ln, got[ln])))
    tot_exp = None
    if per_layer or nlayer_err:
        n1 = sum(v[0] for v in per_layer.values())
        tot_exp = (n1, sum(v[1] for v in per_layer.values()) * repeat,
                   sum(v[2] for v in per_layer.values()) * repeat + nlayer_err + nimp,
                   sum(v[3] for v in per_layer.values()) * repeat)
    if p.total is not None and tot_exp is not None:
        g = p.total
        # the tests figure under --repeat may be the per-iteration or the executed count (documented either way)
        if g[1:] != tot_exp[1:] or g[0] not in (tot_exp[0], tot_exp[0] * repeat):
            viol.append(('C12/total%s' % tag, 'Total reported (tests, failures, errors, skipped)=%s, happened %s '
                         '(repeat %d)' % (g, tot_exp, repeat)))
    if len(p.totals) > 1:
        viol.append(('C12/several-totals%s' % tag, '%d Total lines' % len(p.totals)))
    if opts.get('verbose', 0) >= 1:
        gf = Counter(p.failures_list or [])
        ge = Counter(p.errors_list or [])
        # a failed layer set-up is listed under the layer that was being set up (it may be a base's hook that raised)
        unmatched = match_setup_failures(ge, setup_failures)
        if unmatched:
            viol.append(('C12/error-names%s' % tag, '%d failed layer setUp(s) not listed under "Tests with errors": '
                         'listed %s' % (unmatched, _fmt(Counter(p.errors_list or []), spec))))
        if gf != fail_names:
            viol.append(('C12/failure-names%s' % tag, '"Tests with failures" lists %s, happened %s'
                         % (_fmt(gf, spec), _fmt(fail_names, spec))))
        if ge != err_names:
            viol.append(('C12/error-names%s' % tag, '"Tests with errors" lists %s, happened %s'
                         % (_fmt(ge, spec), _fmt(err_names, spec))))
    return viol, (p.total, tot_exp)


def _fmt(c, spec):
    return sorted((k.replace(spec['mp'], ''), v) for k, v in c.items())


def labels_of(spec, opts, w):
    labels = ['v%d' % opts.get('verbose', 0)] + (['-x'] if opts.get('stop') else [])
    kinds = common.count_kinds(spec)
    bad = any(model.is_bad(t) for _, t in gen.iter_tests(spec))
    skipped = any(model.events_of(t)[2] for _, t in gen.iter_tests(spec))
    used = {rec['layer_name'] for rec in w.tests.values()}
    if bad:
        labels.append('has-bad')
    if skipped:
        labels.append('has-skipped')
    if len(used) >= 2:
        labels.append('>=2-layers')
    if opts.get('repeat', 1) > 1:
        labels.append('repeat')
    for k in ('subtests', 'uxsuccess', 'error_both'):
        if k in kinds:
            labels.append('kind:' + k)
    if any(L.get('faults') for L in spec['layers']):
        labels.append('layer-faults')
    return labels, (len(used) >= 2 and bad and skipped)


class InProc(Part):
    name = 'inproc'
    examples = {'quick': 2400, 'thorough': 40000}

    def strategy(self, tier):
        return cases()

    def execute(self, case):
        spec = common.with_prefix(case['spec'])
        run = drive.run_inproc(spec, common.args_of(case['opts']))
        viol, _ = oracle(spec, case['opts'], run)
        labels, nt = labels_of(spec, case['opts'], traceana.World(spec))
        return Outcome(viol, labels, nt)


class Procs(Part):
    """the same world sequentially and with -j N / resumed layers: each run against the trace, totals against each other"""
    name = 'procs'
    examples = {'quick': 192, 'thorough': 3000}

    def strategy(self, tier):
        return cases(procs=True)

    def execute(self, case):
        opts = dict(case['opts'])
        mode = opts.pop('mode')
        base = case['spec']
        spec = common.with_prefix(base)
        seq = drive.run_inproc(spec, common.args_of(opts), disk=True)
        viol, tot_seq = oracle(spec, opts, seq)
        import copy
        spec2 = common.with_prefix(copy.deepcopy(base))
        o2 = dict(opts)
        if mode == 'resume':
            # a NotImplementedError tear-down on the first layer that has one: later layers are resumed
            w2 = traceana.World(spec2)
            for i, L in enumerate(spec2['layers']):
                if w2.has(i, 'tearDown') and 'tearDown' not in (L.get('faults') or {}):
                    L.setdefault('faults', {})['tearDown'] = 'NIE'
                    break
        else:
            o2['j'] = int(mode[1])
        par = drive.run_inproc(spec2, common.args_of(o2), disk=True)
        v2, tot_par = oracle(spec2, o2, par, tag='/' + mode)
        viol += v2
        # a failing tearDown of a base layer is, by design, counted once per process that had set the layer up; a failing
        # setUp is attempted (and counted) once per dependent layer in every mode
        nofault = not any('tearDown' in (L.get('faults') or {}) for L in base['layers'])
        if nofault and tot_seq and tot_par and tot_seq[0] and tot_par[0] and tot_seq[0] != tot_par[0]:
            viol.append(('C12/totals-differ-between-modes/' + mode, 'sequential Total %s, %s Total %s'
                         % (tot_seq[0], mode, tot_par[0])))
        labels, nt = labels_of(spec, opts, traceana.World(spec))
        labels.append(mode)
        if len(traceana.by_pid(par.trace)) > 1:
            labels.append('children')
        return Outcome(viol, labels, len(traceana.by_pid(par.trace)) > 1)


class C12(Prop):
    id = 'C12'
    registered = True
    technique = ('Hypothesis-generated worlds with every outcome kind; reported per-layer summaries, Total line and '
                 'failure/error name lists compared with counts derived from the spec + trace; differential '
                 'sequential vs. -j N / resumed')
    level_text = ('Worlds with every outcome kind (several events per test, failing subtests, unexpected successes, '
                  'skips, failing layer hooks) are run at every verbosity and with --repeat; every "Ran ..." line, the '
                  'Total line and the multisets of names under "Tests with failures/errors" must equal what the '
                  'validated outcome table and the trace say happened; the same world run with -j N or with layers '
                  'resumed in subprocesses must satisfy the same oracle and report the same Total.')
    level_note = ('Trusts the outcome table (validated against stdlib unittest at start-up). Under --repeat the Total '
                  'tests figure may be per-iteration or executed count; with -x the expectation is restricted to '
                  'the tests that started (the stopping itself is C16\'s business).')
    rule = ('Hypothesis worlds (0..4 layers, 1..2 modules, tests of 15 outcome kinds, faulty layer hooks), -v 0..3, '
            '--repeat 1..3, --buffer, -x; procs part runs each world sequentially and with -j2/-j3/resumed. Non-trivial = '
            '>=2 layers with tests, >=1 bad and >=1 skipped test (inproc) / tests really ran in child processes '
            '(procs). Distinct by hash of (spec, options).')
    assumptions = ('"tests run" counts tests attempted (started or skipped)',
                   'names of failing subtests are logged by the world as str(subtest) when they fail')
    parts = (InProc(), Procs())

    def selftest(self):
        validate_outcome_table()


def validate_outcome_table():
    """run every outcome kind once under the stdlib TestResult and compare with model.EVENTS"""
    import unittest

    from ..engine import HarnessError
    from .. import runtime
    for k in runtime.KINDS:
        t = {'n': 'test_x', 'k': k, 'exc': 'ValueError', 'sub': [['pass'], ['fail'], ['skip'], ['error'], ['fail'], ['skip']]}
        node = {'t': 'c', 'name': 'TCsel', 'tests': [t]}
        runtime.set_spec({'mp': 'selftest_', 'layers': [], 'modules': []}, runtime.Tracer())
        cls, suite = runtime.build_case(node, 'selftest_mod', [])
        res = unittest.TestResult()
        suite.run(res)
        got = (len(res.failures), len(res.errors), len(res.skipped), len(res.unexpectedSuccesses))
        if got != model.events_of(t):
            raise HarnessError('outcome kind %s: stdlib unittest reports %s, model says %s'
                               % (k, got, model.events_of(t)))
    runtime.set_spec(None, runtime.Tracer())


PROP = C12()
