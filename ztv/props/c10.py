"""C10 - layer run order: deterministic, unit tests first, bases first, once each.

Function level: ``order_by_bases`` on every labelled DAG with <=4 layers (instance layers, and class layers
where C3 allows), every order of each bases tuple, every subset that owns tests (with and without the
unit-test layer) and every permutation of the input order; each case is also evaluated in three helper
interpreters running under other PYTHONHASHSEEDs.
End to end: generated worlds run twice with modules renamed/reordered and --layer options permuted.
"""
import itertools
import json
import os
import subprocess
import sys

from hypothesis import strategies as st

from .. import boot, drive, gen, model, parse, runtime
from ..engine import HarnessError, Outcome, Part, Prop
from . import common

NAMES = ['LB', 'LD', 'LA', 'LC', 'LE', 'LF']   # display names: deliberately not in index order
# names that only differ in letter case, are prefixes of each other, or sort differently as text and as numbers
TRICKY = ['LA', 'La', 'lA', 'la', 'LB', 'Lb', 'L', 'LL', 'L1', 'L10', 'L2', 'L_', '_L', 'Z', 'a', 'LAa', 'DBLayer',
          'DbLayer',
          # leading zeros (number-aware keys tie), regular-expression metacharacters (free-text names of instance layers)
          'S1', 'S01', 'S001', 'S10', 'L.A', 'LXA', 'L+', 'L(1)', 'L:F', 'L[A]', 'L|A']


def build(case):
    """layer objects for a function-level case: {'n', 'bases': [[j..]..], 'kind': 'inst'|'class', 'names': [...]}"""
    n = case['n']
    names = case.get('names') or NAMES[:n]
    mod = 'c10mod'
    objs = []
    for i in range(n):
        bases = [objs[j] for j in case['bases'][i]]
        if case['kind'] == 'class':
            objs.append(type(names[i], tuple(bases) or (object,), {'__module__': mod}))
        else:
            objs.append(runtime.InstLayer(names[i], mod, bases))
    return objs


def order_of(case, perm):
    """names in the order computed by the runner for the selected layers given in input order ``perm``"""
    from zope.testrunner.layer import UnitTests
    from zope.testrunner.runner import order_by_bases
    objs = build(case)
    inp = [UnitTests if i == -1 else objs[i] for i in perm]
    res = order_by_bases(inp)
    out = []
    for ly in res:
        out.append(-1 if ly is UnitTests else next(i for i, o in enumerate(objs) if o is ly))
    return out


def closure(case, i):
    out, todo = set(), [i]
    while todo:
        j = todo.pop()
        if j in out or j == -1:
            continue
        out.add(j)
        todo.extend(case['bases'][j])
    return out


def check_order(case, sel, res, tag=''):
    viol = []
    if sorted(res) != sorted(sel):
        viol.append(('C10/not-a-permutation', '%sselected %s, ordered %s (case %s)' % (tag, sorted(sel), res, _c(case))))
        return viol
    if -1 in sel and res[0] != -1:
        viol.append(('C10/unit-not-first', '%sunit-test layer at position %d: %s (case %s)'
                     % (tag, res.index(-1), res, _c(case))))
    pos = {x: k for k, x in enumerate(res)}
    for x in sel:
        if x == -1:
            continue
        for b in closure(case, x) - {x}:
            if b in pos and pos[b] > pos[x]:
                viol.append(('C10/derived-before-base', '%slayer %d runs before its base %d: %s (case %s)'
                             % (tag, x, b, res, _c(case))))
    return viol


def _c(case):
    return json.dumps({k: case[k] for k in ('n', 'bases', 'kind') if k in case})


# ----------------------------------------------------------------------------------------------------
# helper interpreters under other hash seeds


class Helpers:
    def __init__(self):
        self.procs = []

    def start(self):
        if self.procs:
            return
        code = ('import sys; sys.path.insert(0, %r); from ztv.props import c10; c10.helper_main()' % boot.VERIF_DIR)
        for hs in ('1', '2', '3'):
            env = dict(os.environ)
            env['PYTHONHASHSEED'] = hs
            p = subprocess.Popen([sys.executable, '-W', 'ignore', '-c', code], stdin=subprocess.PIPE,
                                 stdout=subprocess.PIPE, env=env, text=True, bufsize=1)
            self.procs.append(p)

    def ask(self, case, perms):
        out = []
        msg = json.dumps({'case': case, 'perms': perms}) + '\n'
        for p in self.procs:
            p.stdin.write(msg)
            p.stdin.flush()
        for p in self.procs:
            line = p.stdout.readline()
            if not line:
                raise HarnessError('C10 helper interpreter died')
            out.append(json.loads(line))
        return out


HELPERS = Helpers()


def helper_main():
    boot.bootstrap()
    for line in sys.stdin:
        req = json.loads(line)
        try:
            res = [order_of(req['case'], perm) for perm in req['perms']]
        except Exception as e:  # noqa: BLE001
            res = {'error': '%s: %s' % (type(e).__name__, e)}
        sys.stdout.write(json.dumps(res) + '\n')
        sys.stdout.flush()


# ----------------------------------------------------------------------------------------------------


def c3_ok(case):
    try:
        build(dict(case, kind='class'))
        return True
    except TypeError:
        return False


def dags(n):
    """every labelled DAG on n nodes with edges j<-i only for j<i, every order of each bases tuple"""
    per_node = []
    for i in range(n):
        opts = []
        for k in range(i + 1):
            for combo in itertools.combinations(range(i), k):
                for perm in itertools.permutations(combo):
                    opts.append(list(perm))
        per_node.append(opts)
    for bases in itertools.product(*per_node):
        yield [list(b) for b in bases]


class Func(Part):
    name = 'func'
    examples = {'quick': 1600, 'thorough': 100000}
    exhaustive_note = ('every DAG on <=4 layers x every bases-tuple order x '
                       'instance and (where C3 allows) class layers x every non-empty selected subset with/without '
                       'the unit layer x every input permutation; one case = one (DAG, kind, subset), all its '
                       'permutations evaluated inside')

    def setup(self):
        HELPERS.start()

    def enumerate(self, tier, w, nworkers):
        k = 0
        for n in (1, 2, 3, 4):
            for bi, bases in enumerate(dags(n)):
                for kind in ('inst', 'class'):
                    case0 = {'n': n, 'bases': bases, 'kind': kind}
                    if kind == 'class' and not c3_ok(case0):
                        continue
                    for r in range(1, n + 1):
                        for sub in itertools.combinations(range(n), r):
                            for unit in (False, True):
                                k += 1
                                if k % nworkers != w:
                                    continue
                                yield dict(case0, sel=list(sub) + ([-1] if unit else []), enum=True)

    def strategy(self, tier):
        @st.composite
        def cs(draw):
            n = draw(st.integers(5, 6))
            bases = [[]]
            for i in range(1, n):
                bases.append(draw(st.lists(st.integers(0, i - 1), max_size=3, unique=True)))
            names = list(draw(st.permutations(NAMES if draw(st.booleans()) else TRICKY)))[:n]
            kind = draw(st.sampled_from(['inst', 'class']))
            case = {'n': n, 'bases': bases, 'kind': kind, 'names': names}
            if kind == 'class' and not c3_ok(case):
                case['kind'] = 'inst'
            sel = draw(st.lists(st.integers(-1, n - 1), min_size=1, max_size=n + 1, unique=True))
            case['sel'] = sel
            case['perms'] = [list(draw(st.permutations(sel))) for _ in range(6)]
            return case
        return cs()

    def execute(self, case):
        sel = case['sel']
        if case.get('enum'):
            perms = [list(p) for p in itertools.permutations(sel)]
        else:
            perms = [list(sel)] + case['perms']
        viol = []
        try:
            results = [order_of(case, perm) for perm in perms]
        except Exception as e:  # noqa: BLE001
            return Outcome([('C10/exception/%s' % type(e).__name__, '%s: %s (case %s)' % (type(e).__name__, e, _c(case)))])
        viol += check_order(case, sel, results[0])
        for perm, res in zip(perms[1:], results[1:]):
            if res != results[0]:
                viol.append(('C10/input-order-dependent', 'input %s -> %s but input %s -> %s (case %s)'
                             % (perms[0], results[0], perm, res, _c(case))))
                break
        # other hash seeds: first two permutations only (cost)
        sub = perms[:2]
        for hs, other in zip((1, 2, 3), HELPERS.ask(case, sub)):
            if isinstance(other, dict):
                raise HarnessError('helper error: %s' % other['error'])
            if other != results[:len(sub)]:
                viol.append(('C10/hash-seed-dependent', 'PYTHONHASHSEED=%d gives %s, this process %s (case %s)'
                             % (hs, other, results[:len(sub)], _c(case))))
        nedges = sum(len(b) for b in case['bases'])
        nontrivial = len(sel) >= 3 and nedges >= 1
        labels = ['n=%d' % case['n'], case['kind']]
        if -1 in sel:
            labels.append('with-unit')
        return Outcome(viol, labels, nontrivial)


# ----------------------------------------------------------------------------------------------------
# end to end


@st.composite
def e2e_cases(draw):
    # (a layer whose setUp raises is still a selected layer: it is announced once, at its place in the order, and so
    # is every layer built on it)
    spec = draw(gen.worlds(max_layers=5, min_layers=2, hooks='layer', kinds=('pass',), max_modules=3, depth=1,
                           max_tests=2, layer_decl=85, explicit_unit=True, max_children=3,
                           faults=draw(st.sampled_from([None, None, None, {'setUp': 25}]))))
    if draw(st.booleans()):
        for L, nm in zip(spec['layers'], draw(st.permutations(TRICKY))):
            L['name'] = nm
    for L in spec['layers']:
        # dotted names that sort before / after the unit-test layer's name
        if draw(st.integers(0, 3)) == 0:
            L['modp'] = draw(st.sampled_from(['zz', 'aa', 'Z', 'zope.testrunner.layer.']))
    names = [L['name'] for L in spec['layers']]
    lp = draw(common.layer_pattern_strategy(names)) if draw(st.integers(0, 2)) == 0 else []
    return {'spec': spec, 'layer': lp, 'seed': draw(st.integers(0, 10 ** 6))}


def permuted_world(spec, seed):
    """same layers and tests, but modules renamed and reordered and suite children reversed"""
    import copy
    s2 = copy.deepcopy(spec)
    mods = s2['modules']
    if seed % 2:
        mods.reverse()
    ren = ['z', 'y', 'x', 'w']
    for k, m in enumerate(mods):
        m['name'] = ren[(k + seed) % 4] + m['name']

    def rev(node):
        if node['t'] == 's':
            node['ch'].reverse()
            for ch in node['ch']:
                rev(ch)
    for m in mods:
        rev(m['tree'])
    return s2


class EndToEnd(Part):
    name = 'e2e'
    examples = {'quick': 320, 'thorough': 8000}

    def strategy(self, tier):
        return e2e_cases()

    def execute(self, case):
        viol = []
        headers = []
        for variant in (0, 1):
            spec = common.with_prefix(case['spec'] if variant == 0 else permuted_world(case['spec'], case['seed']))
            lp = list(case['layer'])
            if variant:
                lp.reverse()
            run = drive.run_inproc(spec, common.args_of({'layer': lp}))
            viol += common.run_escaped(run, 'C10')
            p = parse.parse(run.out)
            hs_raw = [b.layer for b in p.blocks]
            hs = [h.replace(spec['mp'], '') for h in hs_raw]
            headers.append(hs)
            w = common.traceana.World(spec)
            if len(set(hs)) != len(hs):
                viol.append(('C10/layer-run-twice', 'headers %s' % hs))
            sel = model.select(spec, layer_pats=lp or None)
            if sorted(hs) != sorted(k.replace(spec['mp'], '') for k in sel):
                viol.append(('C10/e2e-wrong-layer-set', 'headers %s, selected %s' % (hs, sorted(sel))))
            if model.UNIT_NAME in hs and hs[0] != model.UNIT_NAME:
                viol.append(('C10/unit-not-first', 'headers %s' % hs))
            idx = [w.full.get(h) for h in hs_raw]
            for a in range(len(idx)):
                for b in range(a + 1, len(idx)):
                    if idx[a] not in (None, -1) and idx[b] not in (None, -1) and w.is_base_of(idx[b], idx[a]):
                        viol.append(('C10/derived-before-base', 'headers %s: %s runs before its base %s'
                                     % (hs, hs[a], hs[b])))
            # contiguous group: tests of one layer are not interleaved with another layer's tests
            seq = []
            for _, tid in common.test_starts(run.trace):
                rec = w.tests.get(tid)
                if rec and (not seq or seq[-1] != rec['layer_name']):
                    seq.append(rec['layer_name'])
            if len(seq) != len(set(seq)):
                viol.append(('C10/layer-not-contiguous', 'layer sequence of executed tests: %s' % seq))
        # --list-tests is the other place where the layer order shows
        spec = common.with_prefix(case['spec'])
        lrun = drive.run_inproc(spec, common.args_of({'layer': list(case['layer']), 'list': True}))
        viol += common.run_escaped(lrun, 'C10')
        if lrun.exc is None:
            listed = [ln.replace(spec['mp'], '') for ln, _ in parse.parse(lrun.out).listing]
            if listed != headers[0]:
                viol.append(('C10/listing-order-differs-from-run', '--list-tests lists the layers as %s, the run announces %s'
                             % (listed, headers[0])))
        if headers[0] != headers[1]:
            viol.append(('C10/discovery-order-dependent', 'headers %s vs %s after renaming/reordering modules'
                         % (headers[0], headers[1])))
        nedges = sum(len(L['bases']) for L in case['spec']['layers'])
        return Outcome(viol, ['layers:%d' % len(headers[0])], len(headers[0]) >= 3 and nedges >= 1)


@st.composite
def modes_cases(draw):
    """worlds whose layers differ in size and take a little time, run with -j N where N is smaller than the number of
    layers (so that layers have to wait for a slot), or resumed one after the other"""
    spec = draw(gen.worlds(max_layers=5, min_layers=3, hooks='layer', kinds=('pass',), max_modules=2, depth=1,
                           max_tests=4, layer_decl=95, explicit_unit=True, max_children=5))
    if draw(st.integers(0, 2)) == 0:
        for L, nm in zip(spec['layers'], draw(st.permutations(TRICKY))):
            L['name'] = nm
    for L in spec['layers']:
        L['hooks'] = sorted(set(L['hooks']) | {'setUp', 'tearDown'}, key=gen.HOOKS.index)
    tests = [t for _, t in gen.iter_tests(spec)]
    for t in tests:
        t.setdefault('acts', {}).setdefault('body', []).append(['sleep', draw(st.sampled_from([0.02, 0.05, 0.15]))])
    die = None
    if draw(st.integers(0, 3)) == 0:
        # a layer subprocess that ends without a report (os._exit in a test): the layer was still run once
        i = draw(st.integers(0, len(tests) - 1))
        tests[i]['acts']['body'].append(['in_child', ['die', draw(st.sampled_from(['exit3', 'kill']))]])
        die = i
    return {'spec': spec, 'j': draw(st.sampled_from([2, 2, 2, 3])), 'verbose': draw(st.integers(0, 2)), 'die': die,
            'progress': draw(st.integers(0, 3)) == 0}


class Modes(Part):
    """the layer order of a -j N run: announced in the sequential order, every layer run by exactly one subprocess, and
    slots handed out in that order (when the subprocess of the layer at position p starts, at least p-(N-1) of the
    layers before it have already ended)"""
    name = 'modes'
    examples = {'quick': 96, 'thorough': 3000}

    def strategy(self, tier):
        return modes_cases()

    def execute(self, case):
        spec = common.with_prefix(case['spec'])
        n = case['j']
        viol = []
        progress = bool(case.get('progress'))
        extra = ['-p'] if progress else []
        seq = drive.run_inproc(spec, common.args_of({'verbose': case['verbose'], 'extra': extra}), disk=True)
        par = drive.run_inproc(spec, common.args_of({'verbose': case['verbose'], 'j': n, 'extra': extra}), disk=True)
        viol += common.run_escaped(par, 'C10')
        w = common.traceana.World(spec)
        order = [b.layer for b in parse.parse(seq.out, progress=progress).blocks]
        sh = lambda x: str(x).replace(spec['mp'], '')    # noqa: E731
        labels = ['N=%d' % n, 'layers:%d' % len(order)] + (['child-dies'] if case['die'] is not None else []) + \
            (['--progress'] if progress else [])
        if par.exc is not None or seq.exc is not None or len(set(order)) != len(order):
            return Outcome(viol, labels, False)
        from .c06 import strip_keepalive
        hp = [b.layer for b in parse.parse(strip_keepalive(par.out), progress=progress).blocks if b.layer != '.EmptyLayer']
        if hp != order:
            viol.append(('C10/order-differs-with-j', 'sequential run announces %s, -j %d announces %s'
                         % (sh(order), n, sh(hp))))
        # which process ran which layer's tests
        pids = {}
        for pid, tid in common.test_starts(par.trace):
            rec = w.tests.get(tid)
            if rec is not None and pid != par.main_pid:
                pids.setdefault(rec['layer_name'], set()).add(pid)
        for ln, ps in pids.items():
            if len(ps) > 1:
                viol.append(('C10/layer-run-twice', 'tests of layer %s were run by %d subprocesses' % (sh(ln), len(ps))))
        first, last, ended = {}, {}, {}
        for e in par.trace:
            if 't' in e and e['pid'] != par.main_pid:
                first.setdefault(e['pid'], e['t'])
                last[e['pid']] = e['t']
                if e['ev'] == 'child_exit':
                    ended[e['pid']] = e['t']
        start_of, end_of = {}, {}
        for ln, ps in pids.items():
            if len(ps) == 1:
                pid = next(iter(ps))
                start_of[ln] = first[pid]
                end_of[ln] = ended.get(pid, last[pid])
        waited = False
        for p, ln in enumerate(order):
            if ln not in start_of or p < n:
                continue
            waited = True
            before = [x for x in order[:p] if x in end_of]
            if len(before) < p:
                continue            # (a layer without executed tests: nothing to compare with)
            done = sum(1 for x in before if end_of[x] < start_of[ln])
            if done < p - (n - 1):
                viol.append(('C10/slots-not-in-layer-order', 'with -j %d the subprocess of %s (position %d of %s) started '
                             'when only %d of the layers before it had ended' % (n, sh(ln), p, sh(order), done)))
                break
        return Outcome(viol, labels, waited)


class C10(Prop):
    id = 'C10'
    registered = True
    technique = 'exhaustive enumeration of layer DAGs (<=4) x bases orders x subsets x input permutations x 4 hash seeds; Hypothesis DAGs beyond; metamorphic end-to-end re-runs (modules renamed/reordered, listing vs. run); -j N runs: announced order, one subprocess per layer, slot law over trace time stamps'
    level_text = 'order_by_bases is evaluated on every DAG with <=4 layers in every input permutation and under four PYTHONHASHSEEDs and must return the same permutation with unit layer first and bases first; generated worlds are run twice with modules renamed/reordered and must print the same layer sequence, each layer once and contiguous; -j N runs must announce the same order, run each layer in exactly one subprocess and hand out the N slots in that order.'
    level_note = 'Exhaustive only inside the stated bound; layer names are distinct; helper interpreters are trusted to run the same code.'
    rule = ('func: exhaustive DAGs on <=4 layers x bases-tuple orders x instance/class layers x selected subsets '
            '(with/without unit layer), all input permutations inside each case, plus 3 other PYTHONHASHSEEDs; '
            'Hypothesis DAGs on 5..6 layers, half of them with names that differ only in case / are prefixes of each other. e2e: generated worlds run twice (modules renamed/reordered, suites '
            'reversed, --layer options reversed; a quarter with layers whose setUp raises). Non-trivial = >=3 selected '
            'layers and >=1 base edge. modes: worlds with >=3 layers of different sizes run sequentially and with -j N: same '
            'announced order, one subprocess per layer (also when a child dies without a report), slots handed out in layer '
            'order (trace time stamps); non-trivial = a layer had to wait for a slot. Enumerated '
            'cases are distinct by construction.')
    assumptions = ('layer names are distinct within a run', 'the order of a bases tuple is part of the layer graph')
    parts = (Func(), EndToEnd(), Modes())


PROP = C10()
