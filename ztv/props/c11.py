"""C11 - shuffle is a seed-determined permutation inside each layer."""
import glob
import json
import math
import os
import random
import subprocess

from collections import Counter

from hypothesis import strategies as st

from .. import boot, drive, gen, model, parse, traceana
from ..engine import HarnessError, Outcome, Part, Prop
from . import common

SEEDS = st.one_of(st.integers(0, 50), st.integers(-10 ** 6, 10 ** 6), st.integers(2 ** 63, 2 ** 70),
                  st.sampled_from([0, 1, 42, -1, 2 ** 64, 2 ** 32 - 1, 10 ** 30]))

INNER_SEED = 987654321012


def reference_shuffle(base, seed):
    """independent statement of the documented algorithm: layers in sorted name order share one
    ``Random(seed)``; Fisher-Yates from the top using only ``random()``"""
    rng = random.Random(seed)
    rng.seed(seed, version=1)
    out = {}
    for name in sorted(base):
        tests = list(base[name])
        for i in reversed(range(1, len(tests))):
            j = math.floor(rng.random() * (i + 1))
            tests[i], tests[j] = tests[j], tests[i]
        out[name] = tests
    return out


@st.composite
def cases(draw, procs=False):
    spec = draw(gen.worlds(max_layers=4, min_layers=1 if procs else 0, hooks='layer', nie=40 if procs else 0,
                           faults={} if procs else None, kinds=('pass', 'pass', 'pass', 'fail', 'skip_body'),
                           max_modules=3, depth=1, max_tests=6, layer_decl=75, explicit_unit=True, max_children=3))
    if procs:
        for L in spec['layers']:
            if draw(st.booleans()):
                L['hooks'] = sorted(set(L['hooks']) | {'setUp', 'tearDown'}, key=gen.HOOKS.index)
    # some layers get a dotted name that sorts *after* the unit-test layer (all layers share one random stream, drawn in
    # sorted name order), and some modules disturb the process-wide random generator while they are imported
    for L in spec['layers']:
        if draw(st.integers(0, 2)) == 0:
            L['modp'] = 'zz'
    for m in spec['modules']:
        if draw(st.integers(0, 3)) == 0:
            m.setdefault('acts', []).append(['perturb_random'])
    # test objects that are false in a boolean context
    for m in spec['modules']:
        for node in _case_nodes(m['tree']):
            if draw(st.integers(0, 5)) == 0:
                node['falsy'] = True
    # two test objects of one class and method in one suite (they compare equal; both are tests)
    if not procs and draw(st.integers(0, 5)) == 0:
        tests = [t for _, t in gen.iter_tests(spec)]
        tests[draw(st.integers(0, len(tests) - 1))]['twice'] = True
    nested = False
    if not procs and draw(st.integers(0, 5)) == 0:
        # a test that drives the test runner itself, in process, with a shuffle of its own
        tests = [t for _, t in gen.iter_tests(spec) if t['k'] == 'pass']
        if tests:
            nested = True
            t = tests[draw(st.integers(0, len(tests) - 1))]
            t.setdefault('acts', {}).setdefault('body', []).append(
                ['nested_run', draw(st.sampled_from([['--shuffle', '--shuffle-seed', str(INNER_SEED)],
                                                     ['--shuffle', '--shuffle-seed', str(INNER_SEED), '-v']]))])
    names = [L['name'] for L in spec['layers']]
    # where the options come from: the command line, or (partly) the defaults a test script passes to run()
    opts = {'split': draw(st.sampled_from(['args', 'args', 'seed-in-defaults', 'all-in-defaults', 'shuffle-in-defaults'])),
            'seed': draw(SEEDS), 'layer': draw(common.layer_pattern_strategy(names + ['UnitTests'])),
            'verbose': draw(st.integers(0, 1)), 'explicit': draw(st.sampled_from([True, True, False]))}
    if procs:
        opts['j'] = draw(st.sampled_from([None, 2, 3]))
    opts['nested'] = nested
    return {'spec': spec, 'opts': opts}


def _case_nodes(node):
    if node['t'] == 'c':
        yield node
    for ch in node.get('ch') or ():
        yield from _case_nodes(ch)


def split_opts(split, seed, explicit=True):
    """(defaults, args) carrying --shuffle [--shuffle-seed=N]"""
    sh, sd = ['--shuffle'], (['--shuffle-seed=%d' % seed] if explicit else [])
    if split == 'seed-in-defaults':
        return sd, sh
    if split == 'all-in-defaults':
        return sh + sd, []
    if split == 'shuffle-in-defaults':
        return sh, sd
    return [], sh + sd


def listing(spec, args, disk=False, defaults=None):
    run = drive.run_inproc(spec, args + ['--list-tests'], disk=disk, defaults=defaults)
    p = parse.parse(run.out)
    return run, p, {ln: names for ln, names in p.listing}


def executed_order(spec, run):
    """per layer name: test strs in execution order, per pid"""
    w = traceana.World(spec)
    out = {}
    for pid, evs in traceana.by_pid(run.trace).items():
        for e in evs:
            if e['ev'] == 'T' and e['ph'] == 'run':
                rec = w.tests.get(e['id'])
                if rec:
                    out.setdefault(rec['layer_name'], []).append(rec['str'])
    return out


def check_orders(tag, base, got, seed, viol, restrict=None):
    """got: {layer: [names]} must be the reference shuffle of base (restricted to the layers present)"""
    ref = reference_shuffle(base, seed)
    for ln, names in got.items():
        if ln not in base:
            viol.append(('C11/unknown-layer/' + tag, 'layer %s appears only when shuffling' % ln))
            continue
        if sorted(names) != sorted(base[ln]):
            viol.append(('C11/not-a-permutation/' + tag, 'layer %s: shuffled %s is not a permutation of %s'
                         % (ln, names, base[ln])))
        elif names != ref[ln]:
            viol.append(('C11/order-differs-from-documented-algorithm/' + tag,
                         'layer %s seed %d: got %s, documented algorithm gives %s' % (ln, seed, names, ref[ln])))
    if restrict is not None:
        missing = set(restrict) - set(got)
        if missing:
            viol.append(('C11/layer-missing/' + tag, 'layers %s missing' % sorted(missing)))


class InProc(Part):
    name = 'inproc'
    examples = {'quick': 3000, 'thorough': 30000}

    def strategy(self, tier):
        return cases()

    def execute(self, case):
        spec = common.with_prefix(case['spec'])
        o = case['opts']
        seed = o['seed']
        viol = []
        run0, p0, base = listing(spec, [])
        viol += common.run_escaped(run0, 'C11')
        dflt, sh = split_opts(o.get('split', 'args'), seed)
        run1, p1, listed = listing(spec, sh, defaults=dflt)
        viol += common.run_escaped(run1, 'C11')
        if not viol:
            check_orders('list', base, listed, seed, viol, restrict=base)
            if p1.seeds != [seed]:
                viol.append(('C11/seed-not-reported/list', 'seed lines %s, used %d' % (p1.seeds, seed)))
            # run with the same seed
            run2 = drive.run_inproc(spec, sh + ['-v'] * o['verbose'], defaults=dflt)
            viol += common.run_escaped(run2, 'C11')
            if run2.exc is None:
                ex = executed_order(spec, run2)
                if ex != listed:
                    viol.append(('C11/run-differs-from-list', 'seed %d: executed %s, listed %s'
                                 % (seed, _sh(ex, spec), _sh(listed, spec))))
                got_seeds = parse.parse(run2.out).seeds
                if o.get('nested'):
                    # (the inner runs report their own seed, inside the output of the test that started them)
                    got_seeds = [x for x in got_seeds if x != INNER_SEED]
                if got_seeds != [seed]:
                    viol.append(('C11/seed-not-reported/run', 'seed lines %s, used %d' % (got_seeds, seed)))
            # with --layer filtering: retained layers keep their order
            if o['layer']:
                run3, p3, listed3 = listing(spec, sh + common.args_of({'layer': o['layer']}), defaults=dflt)
                viol += common.run_escaped(run3, 'C11')
                sel = model.select(spec, layer_pats=o['layer'])
                for ln in sel:
                    if listed3.get(ln) != listed.get(ln):
                        viol.append(('C11/layer-filter-changes-order', 'layer %s: %s with --layer %s, %s without'
                                     % (ln, listed3.get(ln), o['layer'], listed.get(ln))))
                if set(listed3) != set(sel):
                    viol.append(('C11/layer-filter-wrong-set', 'listed %s, selected %s' % (sorted(listed3), sorted(sel))))
            # without an explicit seed: the reported seed reproduces the order
            if not o['explicit']:
                run4, p4, listed4 = listing(spec, ['--shuffle'])
                if run4.exc is None:
                    if len(p4.seeds) != 1:
                        viol.append(('C11/seed-not-reported/implicit', 'seed lines %s' % p4.seeds))
                    else:
                        check_orders('implicit-seed', base, listed4, p4.seeds[0], viol, restrict=base)
        big = sum(1 for v in base.values() if len(v) >= 3)
        moved = any(listed.get(ln) != base[ln] for ln in base) if not viol else True
        labels = ['layers>=2' if len(base) >= 2 else 'layers<2', 'options:' + o.get('split', 'args')]
        if any(n.get('falsy') for m in spec['modules'] for n in _case_nodes(m['tree'])):
            labels.append('falsy-tests')
        if o['layer']:
            labels.append('--layer')
        if not o['explicit']:
            labels.append('implicit-seed')
        if o.get('nested'):
            labels.append('nested-shuffled-run')
        if any(t.get('twice') for _, t in gen.iter_tests(spec)):
            labels.append('equal-test-objects')
        return Outcome(viol, labels, big >= 2 and moved)


class Procs(Part):
    """-j N and resumed layers: every child must use the parent's seed (when given) and the same order"""
    name = 'procs'
    examples = {'quick': 96, 'thorough': 1200}

    def strategy(self, tier):
        return cases(procs=True)

    def execute(self, case):
        spec = common.with_prefix(case['spec'])
        o = case['opts']
        seed = o['seed']
        viol = []
        run0, p0, base = listing(spec, [], disk=True)
        viol += common.run_escaped(run0, 'C11')
        if viol:
            return Outcome(viol)
        dflt, args = split_opts(o.get('split', 'args'), seed, o['explicit'])
        args += common.args_of({'j': o.get('j')})
        run = drive.run_inproc(spec, args, disk=True, defaults=dflt)
        viol += common.run_escaped(run, 'C11')
        w = traceana.World(spec)
        pids = traceana.by_pid(run.trace)
        if run.exc is None:
            # never dropping a test: whatever the seed and the mode, every listed test is executed (no layer hook fails here)
            ran = Counter(w.tests[e['id']]['str'] for e in run.trace
                          if e['ev'] == 'T' and e['ph'] == 'run' and e['id'] in w.tests)
            want = Counter(n for names in base.values() for n in names)
            if ran != want:
                viol.append(('C11/not-a-permutation/procs', 'seed %d, -j %s: %d tests listed, %d executed; missing %s, extra %s'
                             % (seed, o.get('j'), sum(want.values()), sum(ran.values()),
                                [x.replace(spec['mp'], '') for x in sorted((want - ran))[:4]],
                                [x.replace(spec['mp'], '') for x in sorted((ran - want))[:4]])))
            if o['explicit']:
                ex = executed_order(spec, run)
                ref = reference_shuffle(base, seed)
                for ln, names in ex.items():
                    if names != ref.get(ln):
                        viol.append(('C11/child-order-differs', 'layer %s (seed %d, -j %s): executed %s, expected %s'
                                     % (ln, seed, o.get('j'), names, ref.get(ln))))
                seeds = set(parse.parse(run.out).seeds)
                if seeds != {seed}:
                    viol.append(('C11/seed-not-reported/procs', 'seed lines %s, used %d' % (sorted(seeds), seed)))
            else:
                # every process is held to the seed it printed itself: parent seed = last seed line, a child's
                # seed line is inside its block
                p = parse.parse(run.out)
                ex_by_pid = {}
                for pid, evs in pids.items():
                    for e in evs:
                        if e['ev'] == 'T' and e['ph'] == 'run':
                            rec = w.tests.get(e['id'])
                            if rec:
                                ex_by_pid.setdefault(pid, {}).setdefault(rec['layer_name'], []).append(rec['str'])
                if not p.seeds:
                    viol.append(('C11/seed-not-reported/procs', 'no seed line at all'))
                for pid, ex in ex_by_pid.items():
                    ok = False
                    for s in set(p.seeds):
                        ref = reference_shuffle(base, s)
                        if all(ref.get(ln) == names for ln, names in ex.items()):
                            ok = True
                    if not ok:
                        viol.append(('C11/order-not-reproducible-from-reported-seed',
                                     'process %s executed %s which none of the reported seeds %s reproduces'
                                     % ('parent' if pid == run.main_pid else 'child', _sh(ex, spec), sorted(set(p.seeds)))))
        labels = []
        if len(pids) > 1:
            labels.append('children')
        if o.get('j'):
            labels.append('-j')
        if not o['explicit']:
            labels.append('implicit-seed')
        big = sum(1 for v in base.values() if len(v) >= 3)
        return Outcome(viol, labels, len(pids) > 1 and big >= 1)


def _sh(d, spec):
    return {k.replace(spec['mp'], ''): [x.replace(spec['mp'], '') for x in v] for k, v in d.items()}


# ----------------------------------------------------------------------------------------------------
# cross-version


def interpreters():
    out = []
    for d in sorted(glob.glob('/root/.pyenv/versions/3.*')):
        v = os.path.basename(d).split('.')
        try:
            minor = int(v[1])
        except (IndexError, ValueError):
            continue
        if minor >= 9 and os.path.exists(os.path.join(d, 'bin', 'python')):
            out.append(os.path.join(d, 'bin', 'python'))
    return out


class CrossVersion(Part):
    name = 'xver'
    examples = {'quick': 16, 'thorough': 320}

    def strategy(self, tier):
        vec = st.tuples(SEEDS, st.dictionaries(st.sampled_from(['a.L1', 'a.L2', 'b.L1', 'zope.testrunner.layer.UnitTests',
                                                                 'Z', 'm.x']),
                                               st.integers(0, 14), min_size=1, max_size=4))
        return st.lists(vec, min_size=8, max_size=16)

    def execute(self, case):
        vectors = [[str(seed), layers] for seed, layers in case]
        data = json.dumps(vectors)
        script = os.path.join(boot.VERIF_DIR, 'ztv', 'xver_shuffle.py')
        results = {}
        interps = interpreters()
        if len(interps) < 2:
            raise HarnessError('fewer than two interpreters >= 3.9 available under /root/.pyenv/versions')
        for py in interps:
            p = subprocess.run([py, script, boot.REPO_SRC], input=data, capture_output=True, text=True, timeout=120)
            if p.returncode != 0:
                return Outcome([('C11/xver-exception', '%s failed: %s' % (py, p.stderr[-400:]))], [], True)
            results[py] = json.loads(p.stdout)
        viol = []
        first = interps[0]
        for py in interps[1:]:
            if results[py] != results[first]:
                k = next(i for i, (a, b) in enumerate(zip(results[py], results[first])) if a != b)
                viol.append(('C11/order-differs-between-python-versions', '%s vs %s on vector %s: %s vs %s'
                             % (py, first, vectors[k], results[py][k], results[first][k])))
        for k, (seed, layers) in enumerate(case):
            base = {name: ['%s:%d' % (name, i) for i in range(n)] for name, n in layers.items()}
            ref = reference_shuffle(base, seed)
            if results[first][k] != ref:
                viol.append(('C11/order-differs-from-documented-algorithm/xver', 'vector %s: %s, documented %s'
                             % (vectors[k], results[first][k], ref)))
                break
        return Outcome(viol, ['interpreters:%d' % len(interps)], True, key=data)


class C11(Prop):
    id = 'C11'
    registered = True
    technique = ('Hypothesis-generated worlds/seeds: metamorphic relations (list vs run vs --layer vs children vs re-run '
                 'with reported seed) + independent reference implementation + cross-interpreter differential of shuffle.py')
    level_text = ('For generated worlds and seeds (0, negative, > 2^64) the listed and executed order per layer must be a '
                  'permutation of the unshuffled order, equal between --list-tests and a run, unchanged by --layer '
                  'filtering, identical in every child of a -j/resumed run, reproducible from the reported seed, and '
                  'equal to an independent implementation of the documented algorithm; the repository\'s shuffle.py is '
                  'also executed under every CPython >= 3.9 present (3.9-3.13) and must give identical orders.')
    level_note = ('Cross-version clause covers shuffle.py in isolation (the other interpreters lack the dependencies); '
                  'without --shuffle-seed every process is held to a seed it printed itself.')
    rule = ('inproc: Hypothesis worlds (0..4 layers, 1..3 modules, up to 6 tests per case) x seeds x --layer patterns, 4-5 '
            'runs per case; procs: NotImplementedError tear-downs / -j with explicit or implicit seed; xver: 8..16 '
            '(seed, layer sizes) vectors per case under 5 interpreters. Non-trivial = >=2 layers with >=3 tests and an '
            'order that really changed (inproc) / tests ran in children (procs).')
    assumptions = ('random.Random(seed).random() is the only primitive assumed stable across versions (as documented)',)
    parts = (InProc(), Procs(), CrossVersion())


PROP = C11()
