"""C15 - stale-bytecode cleanup deletes only orphaned .pyc/.pyo files."""
import hashlib
import os
import shutil
import stat
import tempfile

from hypothesis import strategies as st

from .. import drive, fstree
from ..engine import Outcome, Part, Prop
from . import common

DEFAULT_IGNORE = {'.git', '.svn', 'CVS', '{arch}', '.arch-ids', '_darcs'}


@st.composite
def cases(draw):
    tree = draw(fstree.trees(max_depth=3, unique_stems=True, bytecode=True))
    subdirs = [p for p, node in fstree.iter_dirs(tree) if p]
    roots = ['']
    mode = draw(st.sampled_from(['one', 'one', 'dup', 'nested', 'sub-only']))
    if mode == 'dup':
        roots.append('')
    elif mode == 'nested' and subdirs:
        roots.append(draw(st.sampled_from(subdirs)))
    elif mode == 'sub-only' and subdirs:
        roots = [draw(st.sampled_from(subdirs))]
    link = None
    if subdirs and draw(st.integers(0, 2)) == 0:
        # a symlinked directory; its *name* may be one the cleanup must stay out of (a redirected __pycache__, a linked
        # VCS directory): then what it points to is only protected by that name.  Such links preferably point into a
        # place that is not searched otherwise.
        name = draw(st.sampled_from(['zqlink', 'zqlink', '__pycache__', '__pycache__', '.git', 'CVS', 'zq-link']))
        hidden = [p for p in subdirs if any(x in fstree.IGNORED_DIRS or not fstree.identifier(x) for x in p.split(os.sep))]
        pool = hidden if (hidden and name not in ('zqlink', 'zq-link') and draw(st.booleans())) else subdirs
        link = {'at': draw(st.sampled_from([''] + subdirs)), 'name': name, 'to': draw(st.sampled_from(pool))}
    return {'tree': tree, 'roots': roots, 'link': link,
            'opt': draw(st.sampled_from(['none', 'none', 'none', '-k', '--usecompiled'])),
            'ignore_dir': draw(st.sampled_from([None, None] + sorted({os.path.basename(p) for p in subdirs})[:4])),
            'second': draw(st.sampled_from([None, None, 1, 2, 3])),
            # a search path that does not exist (any more) or is a plain file, given besides the real ones
            'ghost': draw(st.sampled_from([None, None, None, 'missing-test-path', 'missing-path-first', 'file-test-path'])),
            'create_seed': draw(st.integers(0, 10 ** 6)), 'scan_seed': draw(st.integers(0, 10 ** 6))}


def snapshot(base):
    snap = {}
    for dirpath, dirs, files in os.walk(base):
        for name in dirs + files:
            p = os.path.join(dirpath, name)
            st_ = os.lstat(p)
            if stat.S_ISLNK(st_.st_mode):
                snap[p] = ('link', os.readlink(p))
            elif stat.S_ISDIR(st_.st_mode):
                snap[p] = ('dir',)
            else:
                with open(p, 'rb') as f:
                    h = hashlib.sha256(f.read()).hexdigest()
                snap[p] = ('file', st_.st_size, h, st_.st_mtime_ns)
    return snap


def classify(case, base, snap):
    """per existing path: 'must' (orphan that has to go), 'may' (don't-care zone), 'never'"""
    roots = [os.path.join(base, r) if r else base for r in case['roots']]
    ignore = set(DEFAULT_IGNORE)
    if case['ignore_dir']:
        ignore = ignore | {case['ignore_dir']}   # (--ignore_dir appends to the defaults)
    res = {}
    for p, info in snap.items():
        name = os.path.basename(p)
        d = os.path.dirname(p)
        kind = 'never'
        if info[0] == 'file' and name[-4:] in ('.pyc', '.pyo'):
            stem = name[:-4]
            sibling = os.path.join(d, stem + '.py')
            orphan = sibling not in snap
            # the directories between some root and the file
            best = None
            for r in roots:
                if d == r or d.startswith(r + os.sep):
                    parts = [x for x in d[len(r):].split(os.sep) if x]
                    cls = 'must'
                    for x in parts:
                        if x == '__pycache__' or x in ignore:
                            cls = 'never'
                            break
                        if not fstree.identifier(x) or x == 'node_modules':
                            cls = 'may'
                    best = cls if best is None else _stronger(best, cls)
            if best is not None and orphan:
                kind = best
                if stem == '' and kind == 'must':
                    kind = 'may'
        res[p] = kind
    return res


def _stronger(a, b):
    order = {'never': 0, 'may': 1, 'must': 2}
    return a if order[a] >= order[b] else b


class Cleanup(Part):
    name = 'cleanup'
    examples = {'quick': 3200, 'thorough': 40000}

    def strategy(self, tier):
        return cases()

    def execute(self, case):
        tmp = tempfile.mkdtemp(prefix='ztv-c15-', dir=drive.tmp_root())
        base = os.path.join(os.path.realpath(tmp), 'r')
        viol = []
        labels = []
        try:
            fstree.write_tree(case['tree'], base, case['create_seed'])
            link = case['link']
            has_link = False
            if link:
                at = os.path.join(base, link['at']) if link['at'] else base
                to = os.path.join(base, link['to'])
                lp = os.path.join(at, link['name'])
                # no loops: the link must not point to one of its own ancestors
                if not (at == to or at.startswith(to + os.sep)) and not os.path.exists(lp):
                    os.symlink(to, lp)
                    has_link = True
            args = ['--list-tests']
            ghost = case.get('ghost')
            if ghost == 'missing-path-first':
                args += ['--path', os.path.join(os.path.dirname(base), 'zq_gone')]
            for r in case['roots']:
                args += ['--path', os.path.join(base, r) if r else base]
            if ghost == 'missing-test-path':
                args += ['--test-path', os.path.join(os.path.dirname(base), 'zq_gone')]
            elif ghost == 'file-test-path':
                gf = os.path.join(os.path.dirname(base), 'zq_plain_file')
                with open(gf, 'w') as fh:
                    fh.write('not a directory\n')
                args += ['--test-path', gf]
            if case['opt'] != 'none':
                args.append(case['opt'])
            if case['ignore_dir']:
                args += ['--ignore_dir', case['ignore_dir']]
            rel = lambda ps: [p[len(base) + 1:] for p in ps]  # noqa: E731

            def one_pass(tag):
                before = snapshot(base)
                cls = classify(case, base, before)
                followed = has_link and link['name'] != '__pycache__' and link['name'] not in DEFAULT_IGNORE \
                    and link['name'] != case['ignore_dir']
                if has_link and not followed:
                    labels.append('symlink-with-protected-name')
                if followed:
                    # through a link the same directory is reachable under a second path: anything that is an orphan
                    # in the link target may be reached that way
                    for p, k in list(cls.items()):
                        if k == 'never' and before[p][0] == 'file' and p[-4:] in ('.pyc', '.pyo') and \
                                (p.startswith(to + os.sep)) and not os.path.exists(p[:-1]):
                            cls[p] = 'may'
                with fstree.ScandirOrder(case['scan_seed']):
                    run = drive.run_raw(args, trace_path=os.path.join(tmp, 'trace'), purge_under=base)
                viol.extend(common.run_escaped(run, 'C15'))
                after = snapshot(base)
                removed = sorted(set(before) - set(after))
                created = sorted(set(after) - set(before))
                changed = sorted(p for p in before if p in after and before[p] != after[p])
                if created:
                    viol.append(('C15/created' + tag, 'created %s' % rel(created)))
                if changed:
                    viol.append(('C15/modified' + tag, 'modified %s' % rel(changed)))
                if case['opt'] != 'none':
                    if removed:
                        viol.append(('C15/deleted-despite-%s%s' % (case['opt'].strip('-'), tag), 'removed %s' % rel(removed)))
                else:
                    for p in removed:
                        if cls.get(p) == 'never':
                            why = 'a .py file is beside it' if os.path.exists(p[:-1]) else \
                                ('not a .pyc/.pyo file' if p[-4:] not in ('.pyc', '.pyo') else 'protected directory')
                            viol.append(('C15/deleted-non-orphan' + tag, 'removed %s (%s)' % (rel([p])[0], why)))
                    for p, k in cls.items():
                        if k == 'must' and p in after:
                            namesake = any(os.path.basename(q) == os.path.basename(p)[:-1] for q in before)
                            viol.append(('C15/orphan-kept' + tag, 'orphan %s was not removed%s' % (
                                rel([p])[0], ' (a source file of that name exists in another directory)' if namesake else '')))
                            break
                for p, k in cls.items():
                    if k == 'must' and any(os.path.basename(q) == os.path.basename(p)[:-1] for q in before):
                        labels.append('orphan-with-namesake-elsewhere')
                        break
                return before, after, cls, removed

            before, after, cls, removed = one_pass('')
            if case.get('second') is not None and not viol:
                # the same process runs the runner again after the tree has changed (a long-lived process such as a test
                # of the runner itself, an IDE integration): orphans that appeared in between have to go as well
                def pick(path, mod):
                    h = hashlib.blake2b(('%d/%s' % (case['second'], path[len(base):])).encode(), digest_size=4).digest()
                    return int.from_bytes(h, 'big') % mod == 0
                n_new = 0
                for p in removed:
                    if before[p][0] == 'file' and pick(p, 2):
                        with open(p, 'w') as f:
                            f.write('stale again\n')
                        n_new += 1
                for p, info in sorted(after.items()):
                    if info[0] == 'file' and p.endswith('.py') and (p + 'c' in after or p + 'o' in after) and pick(p, 3):
                        os.unlink(p)
                        n_new += 1
                if n_new:
                    labels.append('second-run-after-%s' % ('new-orphans' if case['opt'] == 'none' else 'changes'))
                    before, after, cls2, removed = one_pass('/second-run')
                    cls = dict(cls, **{p: k for p, k in cls2.items() if k == 'must'})
            kinds = set(cls.values())
            lookalike = any(n.endswith(('.pyc.bak', '.PYC', '.pycx')) or (n.endswith('pyc') and not n.endswith('.pyc'))
                            for n in (os.path.basename(p) for p in before))
            protected = any(k == 'never' and p[-4:] in ('.pyc', '.pyo') and before[p][0] == 'file' for p, k in cls.items())
            for k in kinds:
                labels.append('has-' + k)
            labels.append('opt:' + case['opt'])
            if has_link:
                labels.append('symlink')
            nontrivial = 'must' in kinds and protected and lookalike
        finally:
            fstree.purge_modules_under(base)
            shutil.rmtree(tmp, ignore_errors=True)
        return Outcome(viol, labels, nontrivial)


@st.composite
def proc_cases(draw):
    """a run whose later layers are resumed in subprocesses, while tests of the first layer leave new orphans behind: every
    runner process cleans up before *its* discovery"""
    nlayers = draw(st.integers(2, 3))
    layers = [{'name': n, 'kind': 'class', 'bases': [], 'hooks': ['setUp', 'tearDown']} for n in ('LA', 'LB', 'LC')[:nlayers]]
    layers[0]['faults'] = {'tearDown': 'NIE'}
    files = []
    tests_a = []
    for i in range(draw(st.integers(1, 2))):
        shape = draw(st.sampled_from(['orphan.pyc', 'orphan.pyo', 'with-source', 'in-subdir', 'in-pycache', 'lookalike']))
        rel = {'orphan.pyc': 'zqlate%d.pyc', 'orphan.pyo': 'zqlate%d.pyo', 'with-source': 'zqsrc%d.pyc',
               'in-subdir': 'zqsub/zqdeep%d.pyc', 'in-pycache': '__pycache__/zqc%d.cpython-312.pyc',
               'lookalike': 'zqlook%d.pyc.bak'}[shape] % i
        acts = [['write_file', rel, 'stale']]
        if shape == 'with-source':
            acts.append(['write_file', rel[:-1], '# source\n'])
        files.append({'rel': rel, 'shape': shape})
        tests_a.append({'n': 'test_w%d' % i, 'k': 'pass', 'acts': {'body': acts}})
    ch = [{'t': 'c', 'name': 'TC1', 'layer': 0, 'tests': tests_a}]
    for i in range(1, nlayers):
        ch.append({'t': 'c', 'name': 'TC%d' % (i + 1), 'layer': i, 'tests': [{'n': 'test_x', 'k': 'pass'}]})
    return {'spec': {'layers': layers, 'modules': [{'name': 'a', 'tree': {'t': 's', 'ch': ch}}]}, 'files': files,
            'opt': draw(st.sampled_from(['none', 'none', 'none', '-k', '--usecompiled']))}


class Procs(Part):
    name = 'procs'
    examples = {'quick': 48, 'thorough': 800}

    def strategy(self, tier):
        return proc_cases()

    def execute(self, case):
        spec = common.with_prefix(case['spec'])
        viol = []
        args = [] if case['opt'] == 'none' else [case['opt']]
        with drive.World(spec) as W:
            run = W.run(args)
            left = {f['rel']: os.path.exists(os.path.join(W.src, f['rel'])) for f in case['files']}
        if run.timeout or run.exit not in (0, 1):
            return Outcome([('C15/run-aborted', 'exit status %s: %s' % (run.exit, run.err[-300:]))], [], False)
        wrote = {e['path']: e['t'] for e in run.trace if e['ev'] == 'wrote'}
        child_starts = [e['t'] for e in run.trace if e['ev'] == 'child']
        labels = ['opt:' + case['opt']]
        for f in case['files']:
            rel = f['rel']
            if rel not in wrote:
                continue
            later_child = any(t > wrote[rel] for t in child_starts)
            if later_child:
                labels.append('child-started-after-' + f['shape'])
            must_go = f['shape'] in ('orphan.pyc', 'orphan.pyo', 'in-subdir') and case['opt'] == 'none' and later_child
            if must_go and left[rel]:
                viol.append(('C15/orphan-kept-by-subprocess', 'orphan %s appeared during the run; a layer subprocess started '
                             'afterwards but did not remove it before its discovery' % rel))
            if not must_go and not left[rel]:
                viol.append(('C15/deleted-non-orphan', 'removed %s (%s, option %s)' % (rel, f['shape'], case['opt'])))
        return Outcome(viol, labels, any(x.startswith('child-started-after-orphan') for x in labels))


class C15(Prop):
    id = 'C15'
    registered = True
    technique = ('Hypothesis-generated trees mixing sources, bytecode, look-alikes, protected directories and symlinks; '
                 'full before/after snapshot (type, size, sha256, mtime) vs. a must/may/never classification')
    level_text = ('Generated trees containing x.py/x.pyc/x.pyo in every combination, look-alikes (x.pyc.bak, X.PYC, xpyc, '
                  'directories named *.pyc, a file named .pyc), __pycache__, ignored and non-identifier directories and '
                  'symlinked directories are cleaned through the real Runner (--list-tests) with none / -k / --usecompiled '
                  'and several root layouts; a complete snapshot before and after must show: every orphan in a searched '
                  'directory removed, nothing else removed, created or modified, and no change at all with -k/--usecompiled.')
    level_note = ('Don\'t-care zone: files named exactly .pyc/.pyo, orphans below non-identifier or node_modules '
                  'directories and orphans reachable through a symlink only; content is compared by sha256 and mtime_ns.')
    rule = ('Hypothesis trees (depth <=3; per directory 0..4 plain files + 0..4 bytecode shapes out of 12), roots '
            'one/dup/nested/sub-only, optional symlinked directory (named zqlink, __pycache__, .git, CVS or zq-link), options none/-k/--usecompiled, optional extra '
            '--ignore_dir, bytecode named like a source file of another directory, optional second run in the same process after new orphans appeared. Non-trivial = the tree has >=1 true orphan, >=1 protected .pyc/.pyo and >=1 look-alike.')
    assumptions = ('PYTHONDONTWRITEBYTECODE=1 in the workers (the interpreter itself creates no __pycache__)',)
    parts = (Cleanup(), Procs())


PROP = C15()
