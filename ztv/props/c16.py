"""C16 - --stop-on-error stops after the first failing test but still cleans up."""
from hypothesis import strategies as st

from .. import drive, gen, model, parse, traceana
from ..engine import Outcome, Part, Prop
from . import common

BAD = ('fail', 'error', 'error_setup', 'error_teardown', 'error_both', 'fail_teardown', 'cleanup_error', 'uxsuccess',
       'subtests', 'sysexit')


@st.composite
def cases(draw, procs=False):
    faults = draw(st.sampled_from([None, None, None, {'setUp': 20}, {'tearDown': 25}, {'setUp': 12, 'tearDown': 20}]))
    spec = draw(gen.worlds(max_layers=4, min_layers=1 if procs else 0, hooks='layer', faults=faults,
                           nie=40 if procs else 0, kinds=('pass', 'skip_body', 'xfail') + BAD, max_modules=2, depth=1,
                           max_tests=5, weights_good=75, layer_decl=80, explicit_unit=True, max_children=3))
    for L in spec['layers']:
        if draw(st.integers(0, 99)) < 60:
            L['hooks'] = sorted(set(L['hooks']) | {'setUp', 'tearDown'}, key=gen.HOOKS.index)
    if procs and draw(st.integers(0, 2)) == 0:
        # a row of unrelated layers; the first cannot be torn down, so the others run one after the other in
        # subprocesses - and one of those has the first bad test
        n = draw(st.integers(3, 4))
        layers = [{'name': nm, 'kind': 'class', 'bases': [], 'hooks': ['setUp', 'tearDown']} for nm in gen.LAYER_NAMES[:n]]
        layers[0]['faults'] = {'tearDown': 'NIE'}
        bad_at = draw(st.integers(1, n - 1))
        ch = []
        for i in range(n):
            tests = draw(gen.tests_list(kinds=('pass', 'skip_body'), max_tests=2))
            if i == bad_at:
                tests[draw(st.integers(0, len(tests) - 1))]['k'] = draw(st.sampled_from(['fail', 'error', 'uxsuccess']))
                for t in tests:
                    t.setdefault('exc', 'ValueError')
            ch.append({'t': 'c', 'name': 'TC%d' % (i + 1), 'layer': i, 'tests': tests})
        spec = {'layers': layers, 'modules': [{'name': 'a', 'tree': {'t': 's', 'ch': ch}}], 'row': True}
    opts = {'stop': True, 'verbose': draw(st.integers(0, 2)), 'repeat': draw(st.sampled_from([1, 1, 2, 3])),
            'shuffle': draw(st.one_of(st.none(), st.integers(0, 999))),
            'buffer': draw(st.sampled_from([False, False, True]))}
    if procs:
        opts['j'] = None if spec.get('row') else draw(st.sampled_from([None, 2]))
    return {'spec': spec, 'opts': opts}


def oracle(spec, opts, run):
    w = traceana.World(spec)
    viol = common.run_escaped(run, 'C16')
    if viol:
        return viol, [], False
    labels = []
    pids = traceana.by_pid(run.trace)
    any_bad = False
    first_bad_not_last = False
    for pid, evs in pids.items():
        stopped_by = None
        # the trigger: a test that records a failure or an error.  The trace shows the phases of each test;
        # a test is "bad" by its outcome kind, and its first result is recorded at the latest when it ends,
        # i.e. before the next test starts.
        cur = None
        for k, e in enumerate(evs):
            if e['ev'] == 'T' and e['ph'] == 'setUp':
                if stopped_by is not None:
                    viol.append(('C16/test-started-after-failure',
                                 'test %s started after %s had recorded a failure/error (pid %s)'
                                 % (e['id'], stopped_by, 'parent' if pid == run.main_pid else 'child')))
                    break
                if cur is not None and _is_bad(w, cur):
                    stopped_by = cur
                    viol.append(('C16/test-started-after-failure',
                                 'test %s started after %s had recorded a failure/error (pid %s)'
                                 % (e['id'], stopped_by, 'parent' if pid == run.main_pid else 'child')))
                    break
                cur = e['id']
            elif e['ev'] == 'L' and e['h'] == 'setUp' and e['ph'] == 'enter':
                if cur is not None and _is_bad(w, cur) and pid == run.main_pid and len(pids) == 1:
                    viol.append(('C16/layer-set-up-after-failure',
                                 'layer %s set up after test %s had recorded a failure/error' % (e['layer'], cur)))
                    break
            elif e['ev'] == 'L' and e['h'] == 'setUp' and e['ph'] == 'raise':
                # a failed layer set-up is an error as well: nothing further may be set up / started
                later = [x for x in evs[k + 1:] if (x['ev'] == 'T' and x['ph'] == 'setUp') or
                         (x['ev'] == 'L' and x['h'] == 'setUp' and x['ph'] == 'enter')]
                if later and pid == run.main_pid and len(pids) == 1:
                    x = later[0]
                    viol.append(('C16/continued-after-layer-setup-failure',
                                 '%s happened after setUp of layer %s failed' % (x.get('id') or x.get('layer'), e['layer'])))
                any_bad = True
                break
        if cur is not None and _is_bad(w, cur):
            any_bad = True
        # clean-up: every layer that was set up got its tear-down attempt
        for sig, msg in traceana.check_layer_stack(w, evs, ''):
            if sig in ('C01/never-torn-down', 'C01/teardown-count'):
                viol.append(('C16/' + sig[4:], msg))
    # sequential run whose later layers were resumed in subprocesses (no -j): the processes run one after the other, so
    # the events of all of them are totally ordered in time; after the first bad test ended (or a layer set-up failed),
    # no layer may be set up any more - in whichever process
    if len(pids) > 1 and (opts.get('j') or 1) <= 1 and all('t' in e for e in run.trace):
        evs = sorted(run.trace, key=lambda e: e['t'])
        t_bad = None
        what = None
        for e in evs:
            if t_bad is None:
                if e['ev'] == 'T' and e['ph'] == 'ran' and _is_bad(w, e['id']):
                    t_bad, what = e['t'], 'test %s' % e['id']
                elif e['ev'] == 'L' and e['h'] == 'setUp' and e['ph'] == 'raise':
                    t_bad, what = e['t'], 'setUp of layer %s' % e['layer']
            elif e['ev'] == 'L' and e['h'] == 'setUp' and e['ph'] == 'enter':
                viol.append(('C16/layer-set-up-after-failure/resumed',
                             'layer %s was set up (in a layer subprocess) after %s had failed' % (e['layer'], what)))
                break
    bad_started = [tid for _, tid in common.test_starts(run.trace) if _is_bad(w, tid)]
    p = parse.parse(run.out)
    if bad_started or any_bad:
        if run.failed is not True:
            viol.append(('C16/verdict-not-failed', 'a test failed but the verdict is %r' % run.failed))
        if not any(b.ran for b in p.blocks) and bad_started:
            viol.append(('C16/summary-missing', 'no "Ran ..." summary line after stopping'))
    # non-triviality: the first bad test is not the last selected one (something was really cut off)
    sel = model.select(spec)
    total = sum(len(v) for v in sel.values()) * opts.get('repeat', 1)
    nstarted = len(common.test_starts(run.trace))
    if bad_started:
        labels.append('stopped')
        first_bad_not_last = nstarted < total
        if first_bad_not_last:
            labels.append('cut-off')
    if opts.get('repeat', 1) > 1:
        labels.append('repeat')
    if len(pids) > 1:
        labels.append('children')
    return viol, labels, first_bad_not_last


def _is_bad(w, tid):
    rec = w.tests.get(tid)
    return rec is not None and model.is_bad(rec['t'])


class InProc(Part):
    name = 'inproc'
    examples = {'quick': 2500, 'thorough': 50000}

    def strategy(self, tier):
        return cases()

    def execute(self, case):
        spec = common.with_prefix(case['spec'])
        run = drive.run_inproc(spec, common.args_of(case['opts']))
        viol, labels, nt = oracle(spec, case['opts'], run)
        return Outcome(viol, labels, nt)


class Procs(Part):
    name = 'procs'
    examples = {'quick': 64, 'thorough': 800}

    def strategy(self, tier):
        return cases(procs=True)

    def execute(self, case):
        spec = common.with_prefix(case['spec'])
        run = drive.run_inproc(spec, common.args_of(case['opts']), disk=True)
        viol, labels, nt = oracle(spec, case['opts'], run)
        return Outcome(viol, labels, nt)


class ImportErrors(Part):
    """sequential runs (real discovery) of worlds that also contain modules which cannot be imported: import problems
    are errors of the run, but they must not postpone the stop after the first failing test"""
    name = 'importerr'
    examples = {'quick': 96, 'thorough': 1500}

    def strategy(self, tier):
        @st.composite
        def cs(draw):
            case = draw(cases())
            spec = case['spec']
            for k in range(draw(st.integers(1, 2))):
                spec['modules'].append({'name': 'x%d' % k, 'fail': draw(st.sampled_from(['ImportError', 'ValueError',
                                                                                            'SyntaxError'])),
                                        'tree': {'t': 's', 'ch': []}})
            return case
        return cs()

    def execute(self, case):
        spec = common.with_prefix(case['spec'])
        run = drive.run_inproc(spec, common.args_of(case['opts']), disk=True)
        viol, labels, nt = oracle(spec, case['opts'], run)
        return Outcome(viol, labels + ['import-errors'], nt)


@st.composite
def sched_cases(draw):
    """-x -j N with N layers that all start at once; every layer's first test waits at a barrier, the harness releases
    them one at a time (generated order) and lets the parent react in between; one layer has the first bad test"""
    n = draw(st.integers(2, 4))
    names = draw(st.permutations(gen.LAYER_NAMES))[:n + 1]
    with_base = draw(st.booleans())
    layers, ch, barriers = [], [], {}
    if with_base:
        layers.append({'name': names[n], 'kind': 'class', 'bases': [], 'hooks': ['setUp', 'tearDown']})
    bad_at = draw(st.integers(0, n - 1))
    for i in range(n):
        bases = [0] if with_base and draw(st.booleans()) else []
        layers.append({'name': names[i], 'kind': draw(st.sampled_from(['class', 'inst'])), 'bases': bases,
                       'hooks': ['setUp', 'tearDown']})
        li = len(layers) - 1
        tests = [{'n': 'test_a', 'k': 'pass', 'acts': {'body': [['barrier', 'B%d' % i]]}},
                 {'n': 'test_b', 'k': 'pass'}, {'n': 'test_c', 'k': 'pass'}]
        if i == bad_at:
            victim = draw(st.integers(0, 1))
            tests[victim]['k'] = draw(st.sampled_from(['fail', 'error', 'error_teardown', 'uxsuccess', 'subtests']))
            tests[victim]['exc'] = 'ValueError'
            tests[victim]['sub'] = [['pass'], ['fail']]
        barriers['B%d' % i] = li
        ch.append({'t': 'c', 'name': 'TC%d' % (i + 1), 'layer': li, 'tests': tests})
    prio = draw(st.permutations(sorted(barriers)))
    if draw(st.booleans()):     # the bad layer finishes first while all the others are in the middle of a test
        prio = ['B%d' % bad_at] + [b for b in prio if b != 'B%d' % bad_at]
    return {'spec': {'layers': layers, 'modules': [{'name': 'a', 'tree': {'t': 's', 'ch': ch}}]}, 'n': n,
            'barriers': barriers, 'prio': list(prio), 'verbose': draw(st.integers(0, 2)), 'bad': 'B%d' % bad_at}


class Sched(Part):
    """-x together with -j N under a harness-owned schedule: whichever layer fails first, and whatever the other layer
    subprocesses are doing at that moment, every layer that was set up in any process still gets its tear-down"""
    name = 'sched'
    examples = {'quick': 48, 'thorough': 800}
    shrink_cap = {'quick': 60, 'thorough': 300}

    def strategy(self, tier):
        return sched_cases()

    def execute(self, case):
        import copy

        from . import c06
        spec = common.with_prefix(copy.deepcopy(case['spec']))
        args = ['-x', '-j', str(case['n'])] + ['-v'] * case['verbose']
        with drive.World(spec) as W:
            run, info = c06.run_scheduled(W, args, case['n'], dict(case['barriers']), case['prio'], settle=0.5)
        viol = []
        if info['parent_timeout'] or run.exit not in (0, 1) or 'Traceback (most recent call last)' in run.err:
            viol.append(('C16/run-aborted/sched', 'exit status %s (timeout %s), stderr: %s'
                         % (run.exit, info['parent_timeout'], run.err[-300:])))
        labels = ['N=%d' % case['n']]
        if not viol and not info['stalled']:
            v, labels2, _ = oracle(spec, {'stop': True, 'j': case['n']}, run)
            viol += v
            labels += labels2
        if info['stalled']:
            labels.append('stalled')
        first = case['prio'][0] == case['bad']
        if first:
            labels.append('bad-layer-finishes-first')
        return Outcome(viol, labels, first and not info['stalled'])


@st.composite
def fixture_cases(draw):
    """a suite-like test object that is not a TestSuite (the runner calls it as one test, unittest's suite machinery and
    its class fixtures run inside): the first problem is a class fixture that raises - recorded outside any
    startTest/stopTest bracket - and test classes follow inside the same object and after it"""
    def tests(prefix, n):
        return [{'n': 'test_%s%d' % (prefix, i), 'k': 'pass'} for i in range(n)]
    inner = []
    nbefore = draw(st.integers(0, 2))
    for i in range(nbefore):
        inner.append({'t': 'c', 'name': 'TCok%d' % i, 'tests': tests('o', draw(st.integers(1, 2)))})
    inner.append({'t': 'c', 'name': 'TCbroken', 'tests': tests('b', draw(st.integers(1, 2))),
                  'class_error': draw(st.sampled_from(['ValueError', 'KeyError', 'AssertionError']))})
    for i in range(draw(st.integers(1, 2))):
        inner.append({'t': 'c', 'name': 'TCafter%d' % i, 'tests': tests('a', draw(st.integers(1, 2)))})
    ch = [{'t': 's', 'wrap': 'suitelike', 'name': 'SL', 'ch': inner}]
    if draw(st.booleans()):
        ch.append({'t': 'c', 'name': 'TClast', 'tests': tests('l', 1)})
    if draw(st.booleans()):
        ch.insert(0, {'t': 'c', 'name': 'TCfirst', 'tests': tests('f', 1)})
    return {'spec': {'layers': [], 'modules': [{'name': 'a', 'tree': {'t': 's', 'ch': ch}}]},
            'opts': {'stop': True, 'verbose': draw(st.integers(0, 2)), 'buffer': draw(st.booleans())}}


class Fixtures(Part):
    name = 'fixtures'
    examples = {'quick': 320, 'thorough': 4000}

    def strategy(self, tier):
        return fixture_cases()

    def execute(self, case):
        spec = common.with_prefix(case['spec'])
        run = drive.run_inproc(spec, common.args_of(case['opts']))
        viol = common.run_escaped(run, 'C16')
        seen = False
        after = None
        for e in run.trace:
            if e['ev'] == 'class_fixture_error':
                seen = True
            elif seen and e['ev'] == 'T' and e['ph'] == 'setUp' and after is None:
                after = e['id']
        if run.exc is None:
            if after is not None:
                viol.append(('C16/test-started-after-failure', 'test %s started after the class fixture of TCbroken had '
                             'raised (recorded as an error) under --stop-on-error' % after.replace(spec['mp'], '')))
            if seen and run.failed is not True:
                viol.append(('C16/verdict-not-failed', 'a class fixture raised but the verdict is %r' % run.failed))
        return Outcome(viol, ['class-fixture-error' if seen else 'fixture-not-reached'], seen)


class C16(Prop):
    id = 'C16'
    registered = True
    technique = ('Hypothesis-generated worlds with the first bad item at every position/kind, -x with --repeat/'
                 '--shuffle/--buffer; per-process invariant over the trace (no test start after a recorded failure)')
    level_text = ('Worlds in which the first failing item is of every kind (failure, error in any phase, unexpected '
                  'success, failing subtest, failing layer set-up) and at every position are run with -x (plus --repeat, '
                  '--shuffle, --buffer, -j/resumed layers); in every process no test may start after a bad test ended, '
                  'in a purely sequential run no layer may be set up afterwards, every set-up layer must be torn down, '
                  'a summary must be printed and the verdict must be failed.')
    level_note = ('A bad test is recognised by its outcome kind (validated table); its result is recorded at the latest '
                  'when it ends, so the oracle only forbids starts of *later* tests. Tear-down failures are not triggers.')
    rule = ('Hypothesis worlds (0..4 layers, tests 75% good, bad ones of 10 kinds, failing layer setUp / tearDown hooks), options -x always, --repeat 1..3, '
            '--shuffle, --buffer; procs part adds NotImplementedError tear-downs and -j2; importerr part adds 1..2 modules that fail to import (real discovery). Non-trivial = a bad test '
            'started and fewer tests started than were selected (something was really cut off).')
    assumptions = ('for -j N runs only the per-process clause is checked; runs whose layers are resumed one after the other '
                   'in subprocesses are sequential runs: no layer may be set up after the first failure in any process',)
    parts = (InProc(), Procs(), ImportErrors(), Sched(), Fixtures())


PROP = C16()
