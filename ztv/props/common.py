"""helpers shared by the property modules"""
import re

from hypothesis import strategies as st

from .. import drive, engine, model, traceana  # noqa: F401


def with_prefix(case_spec):
    spec = dict(case_spec)
    spec['mp'] = drive.new_prefix()
    return spec


def run_escaped(run, sig_prefix):
    """violation for an exception escaping Runner.run() (the run aborted)"""
    if run.exc is None:
        return []
    last = (run.exc_tb or '').strip().splitlines()
    where = ''
    for ln in reversed(last):
        if ln.strip().startswith('File '):
            where = ln.strip()
            break
    m = re.search(r'File ".*?/([^/"]+)", line \d+, in (\w+)', where)
    site = '%s:%s' % (m.group(1), m.group(2)) if m else '?'
    return [('%s/run-aborted/%s@%s' % (sig_prefix, type(run.exc).__name__, site),
             'exception escaped the run: %s: %s  [%s]' % (type(run.exc).__name__, _safe(run.exc), where))]


def _safe(e):
    try:
        return str(e)
    except Exception:  # noqa: BLE001
        return '<unprintable>'


def skipped_layers(spec):
    """layers (indices) of tests that never start: decorator / class skipped"""
    out = []
    for rec in model.resolve(spec):
        if rec['t']['k'] == 'skip_deco' or rec['skip_class']:
            out.append(rec['layer'])
    return out


def count_kinds(spec):
    from ..gen import iter_tests
    d = {}
    for node, t in iter_tests(spec):
        d[t['k']] = d.get(t['k'], 0) + 1
    return d


def args_of(opts):
    """option dict -> runner command line (everything except the discovery options)"""
    args = []
    for p in opts.get('test') or ():
        args += ['-t', p]
    for p in opts.get('module') or ():
        args += ['-m', p]
    for p in opts.get('layer') or ():
        args += ['--layer', p]
    if opts.get('unit'):
        args.append('-u')
    if opts.get('non_unit'):
        args.append('-f')
    if opts.get('all'):
        args.append('--all')
    if opts.get('at_level') is not None:
        args += ['--at-level=%d' % opts['at_level']]
    if opts.get('only_level') is not None:
        args += ['--only-level=%d' % opts['only_level']]
    if opts.get('repeat', 1) and opts.get('repeat', 1) > 1:
        args += ['--repeat', str(opts['repeat'])]
    if opts.get('shuffle') is not None:
        if opts['shuffle'] == 'noseed':
            args += ['--shuffle']
        else:
            args += ['--shuffle', '--shuffle-seed', str(opts['shuffle'])]
    args += ['-v'] * opts.get('verbose', 0)
    if opts.get('buffer'):
        args.append('--buffer')
    if opts.get('stop'):
        args.append('-x')
    if opts.get('j'):
        args += ['-j', str(opts['j'])]
    if opts.get('list'):
        args.append('--list-tests')
    if opts.get('xml'):
        args += ['--xml', opts['xml']]
    for p in opts.get('ignore_threads') or ():
        args += ['--ignore-new-thread=' + p]
    args += list(opts.get('extra') or ())
    return args


def layer_pattern_strategy(spec_layers_names):
    """--layer patterns that name generated layers (positive and negated)"""
    names = list(spec_layers_names)
    if not names:
        return st.just([])
    # (layer names may contain regular-expression metacharacters: a pattern that *names* a layer escapes them)
    pat = st.sampled_from(names).map(lambda n: re.escape(n) + '$')
    neg = st.sampled_from(names).map(lambda n: '!' + re.escape(n) + '$')
    return st.lists(st.one_of(pat, pat, neg), max_size=3)


def runnable_layers(w, spec):
    """indices of layers whose whole stack can be set up (no setUp fault anywhere in the closure)"""
    ok = set()
    for i, L in enumerate(spec['layers']):
        bad = False
        for j in w.clo(i):
            f = (spec['layers'][j].get('faults') or {})
            if 'setUp' in f and w.has(j, 'setUp'):
                bad = True
        if not bad:
            ok.add(i)
    return ok


def test_starts(trace):
    """list of (pid, id) for every test whose setUp was reached"""
    return [(e['pid'], e['id']) for e in trace if e['ev'] == 'T' and e['ph'] == 'setUp']
