"""helpers shared by the property modules"""
from .. import drive, engine, model, traceana


def with_prefix(case_spec):
    spec = dict(case_spec)
    spec['mp'] = drive.new_prefix()
    return spec


def run_escaped(run, sig_prefix):
    """violation for an exception escaping Runner.run() (the run aborted)"""
    if run.exc is None:
        return []
    last = (run.exc_tb or '').strip().splitlines()
    where = ''
    for ln in reversed(last):
        if ln.strip().startswith('File '):
            where = ln.strip()
            break
    # SystemExit from option errors etc. is handled by callers
    return [('%s/run-aborted/%s' % (sig_prefix, type(run.exc).__name__),
             'exception escaped the run: %s: %s  [%s]' % (type(run.exc).__name__, run.exc, where))]


def skipped_layers(spec):
    """layers (indices) of tests that never start: decorator / class skipped"""
    out = []
    for rec in model.resolve(spec):
        if rec['t']['k'] == 'skip_deco' or rec['skip_class']:
            out.append(rec['layer'])
    return out


def count_kinds(spec):
    from ..gen import iter_tests
    d = {}
    for node, t in iter_tests(spec):
        d[t['k']] = d.get(t['k'], 0) + 1
    return d
