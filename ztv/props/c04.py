"""C04 - exceptions raised by tests and layers are contained, never abort the run."""
from hypothesis import strategies as st

from .. import drive, gen, model, parse, traceana
from ..engine import Outcome, Part, Prop
from . import common


@st.composite
def cases(draw, procs=False):
    faults = draw(st.sampled_from([None, None, {'setUp': 12}, {'tearDown': 15}, {'setUp': 10, 'tearDown': 10}]))
    spec = draw(gen.worlds(max_layers=4, min_layers=1 if procs else 0, hooks='layer', faults=faults,
                           nie=35 if procs else 0, kinds=gen.ALL_KINDS, max_modules=2, depth=1, max_tests=4,
                           weights_good=35, layer_decl=80, explicit_unit=True, max_children=3,
                           excs=gen.ALL_EXCS + gen.ODD_EXCS, fault_excs=gen.ALL_EXCS[:12] + gen.ODD_EXCS + ('SkipTest', 'AssertionError', 'RecursionError',
                                                                            'RecursionError', 'StopIteration', 'EOFError'),
                           sub_skip=True))
    if draw(st.integers(0, 3)) == 0:
        spec = draw(gen.shaped_world(kinds=gen.ALL_KINDS, nie=procs))
    for L in spec['layers']:
        if draw(st.integers(0, 99)) < 60:
            L['hooks'] = sorted(set(L['hooks']) | {'setUp', 'tearDown'}, key=gen.HOOKS.index)
    gen.add_outputs(draw, spec, prob=35)
    opts = {'buffer': draw(st.booleans()), 'verbose': draw(st.integers(0, 3)),
            'repeat': draw(st.sampled_from([1, 1, 1, 2]))}
    # reporting options: a failure is reported through a different code path with each of them
    extra = draw(st.lists(st.sampled_from(FORMAT_FLAGS), max_size=2, unique=True)) \
        if draw(st.integers(0, 2)) == 0 else []
    # (giving two of --ndiff/--udiff/--cdiff is rejected at start-up, as documented: keep the first only)
    diffs = [f for f in extra if f in ('--ndiff', '--udiff', '--cdiff')]
    opts['extra'] = [f for f in extra if f not in diffs[1:]]
    if opts['repeat'] > 1 and draw(st.booleans()):
        # a test that raises in one iteration only (state surviving from one iteration to the next)
        tests = [t for _, t in gen.iter_tests(spec) if t['k'] == 'pass']
        if tests:
            t = tests[draw(st.integers(0, len(tests) - 1))]
            t.setdefault('acts', {}).setdefault(draw(st.sampled_from(['setUp', 'body', 'tearDown'])), []).append(
                ['flaky', draw(st.integers(1, opts['repeat'])), draw(st.sampled_from(['AssertionError', 'ValueError']))])
    if opts['buffer'] and not procs:
        # tests with the usual "capture my own output" fixture: save the stream in setUp, put it back in tearDown or in a
        # clean-up - also when the test raised in between
        for _, t in gen.iter_tests(spec):
            if draw(st.integers(0, 7)) == 0:
                acts = t.setdefault('acts', {})
                # (what the test writes while its private text streams are installed is its own business; they have no
                # .buffer, so the byte-writing actions would just raise)
                for ph in list(acts):
                    acts[ph] = [a for a in acts[ph] if a[0] != 'out']
                acts.setdefault('setUp', []).append(['swap', 'save'])
                acts.setdefault('tearDown', []).insert(0, ['swap', 'restore'])
                t['fixture'] = 'save-restore'
    if procs:
        opts['j'] = draw(st.sampled_from([None, 2]))
    return {'spec': spec, 'opts': opts}


FORMAT_FLAGS = ('-c', '-p', '-1', '--auto-progress', '--slow-test=0', '--ndiff', '--udiff', '--cdiff', '-C')


def oracle(spec, opts, run):
    w = traceana.World(spec)
    viol = common.run_escaped(run, 'C04')
    labels = []
    if viol:
        # everything else would only be a consequence of the abort
        return Outcome(viol, ['run-aborted'], True)
    if run.exc is None and run.failed is None:
        viol.append(('C04/no-verdict', 'run returned without a verdict'))
    sel = model.select(spec)
    ok_layers = common.runnable_layers(w, spec)
    repeat = opts.get('repeat', 1)
    started = {}
    for pid, tid in common.test_starts(run.trace):
        started[tid] = started.get(tid, 0) + 1
    p = parse.parse(run.out, progress='-p' in (opts.get('extra') or ()))
    ran_by_layer = {}
    for b in p.blocks:
        ran_by_layer.setdefault(b.layer, []).extend(b.ran)
    n_bad = 0
    for ln, recs in sel.items():
        li = w.full.get(ln)
        runnable = li == model.UNIT or li in ok_layers
        for rec in recs:
            if model.is_bad(rec['t']):
                n_bad += 1
            if not runnable or not model.starts(rec['t'], rec['skip_class']):
                continue
            if started.get(rec['id'], 0) != repeat:
                viol.append(('C04/test-did-not-run', 'test %s (layer %s) started %d times, expected %d'
                             % (rec['id'], ln, started.get(rec['id'], 0), repeat)))
                break
        if runnable and len(ran_by_layer.get(ln, [])) != repeat:
            viol.append(('C04/layer-summary-missing', 'layer %s: %d "Ran ..." summary lines, expected %d'
                         % (ln, len(ran_by_layer.get(ln, [])), repeat)))
    # every layer that was set up gets its tear-down attempt (per process)
    for pid, evs in traceana.by_pid(run.trace).items():
        for sig, msg in traceana.check_layer_stack(w, evs, ''):
            if sig in ('C01/never-torn-down', 'C01/teardown-count'):
                viol.append(('C04/' + sig[4:], msg))
    # "it is recorded against that test": every test that raised in some iteration is in the runner's failure / error
    # records when the run is over (single-process runs: the Runner object is at hand), and the verdict says so
    raised, cur = {}, {}
    for e in run.trace:
        if e['ev'] == 'T' and e['ph'] == 'run':
            cur[e['pid']] = e['id']
            rec = w.tests.get(e['id'])
            if rec is not None and model.is_bad(rec['t']):
                raised.setdefault(e['id'], rec['t']['k'])
        elif e['ev'] == 'T' and e['ph'] == 'ran':
            cur.pop(e['pid'], None)
        elif e['ev'] == 'raise' and e.get('flaky') and cur.get(e['pid']):
            raised.setdefault(cur[e['pid']], 'flaky')
    if raised:
        if run.failed is False:
            viol.append(('C04/not-recorded/verdict', '%d tests raised (%s) but the run reports success'
                         % (len(raised), sorted(raised)[0])))
        if run.runner is not None and len(traceana.by_pid(run.trace)) <= 1:
            recorded = set()
            for entry in list(run.runner.failures) + list(run.runner.errors):
                t = entry[0]
                t = getattr(t, 'test_case', t)
                try:
                    recorded.add(t.id())
                except Exception:  # noqa: BLE001  (layer failures are recorded with other objects)
                    pass
            for tid in sorted(raised):
                if tid not in recorded:
                    viol.append(('C04/not-recorded/%s' % ('flaky' if raised[tid] == 'flaky' else 'test'),
                                 'test %s (%s) raised but is in neither the failures nor the errors the runner recorded'
                                 % (tid, raised[tid])))
                    break
        elif run.runner is not None:
            # layers ran in subprocesses: what a child reports is recorded by the parent under the test's printed name
            names = set()
            for entry in list(run.runner.failures) + list(run.runner.errors):
                try:
                    names.add(str(entry[0]))
                except Exception:  # noqa: BLE001
                    pass
            for tid in sorted(raised):
                rec = w.tests.get(tid)
                if rec is not None and raised[tid] != 'flaky' and not any(
                        n == rec['str'] or n.startswith(rec['str'] + ' ') for n in names):   # (subtests: name + description)
                    viol.append(('C04/not-recorded/test-in-subprocess',
                                 'test %s (%s) raised in a layer subprocess but is in neither the failures nor the errors '
                                 'the runner recorded (%s)' % (tid, raised[tid], sorted(names)[:4])))
                    break
        if 'flaky' in raised.values():
            labels.append('raises-in-one-iteration-only')
    # "... or layer": a layer setUp / tearDown that raised (anything but the tear-down's NotImplementedError) is in the
    # runner's error records under that layer's name, and the verdict says so
    lraised = []
    for e in run.trace:
        if e['ev'] == 'L' and e.get('ph') == 'raise' and e['h'] in ('setUp', 'tearDown') and \
                not (e['h'] == 'tearDown' and e.get('exc') == 'NIE'):
            lraised.append((e['layer'], e['h'], e.get('exc')))
    if lraised:
        labels.append('layer-hook-raised')
        if run.failed is False:
            viol.append(('C04/not-recorded/layer-verdict', 'layer hook %s.%s raised %s but the run reports success'
                         % lraised[0]))
        if run.runner is not None and len(traceana.by_pid(run.trace)) <= 1:
            recorded = []
            for entry in list(run.runner.errors) + list(run.runner.failures):
                try:
                    recorded.append(str(entry[0]))
                except Exception:  # noqa: BLE001
                    pass
            idx = {L['name']: i for i, L in enumerate(spec['layers'])}

            def derived(i):
                out = {i}
                for j, L in enumerate(spec['layers']):     # (bases always have smaller indices)
                    if any(b in out for b in L['bases']):
                        out.add(j)
                return out
            for lname, hook, exc in lraised:
                # (a base's failing setUp is recorded against the layer that was being set up on top of it)
                names = [spec['layers'][j]['name'] for j in (derived(idx[lname]) if hook == 'setUp' else {idx[lname]})]
                if not any(r.startswith('Layer: ') and r.endswith('.%s.%s' % (nm, hook)) for r in recorded for nm in names):
                    viol.append(('C04/not-recorded/layer', 'layer %s: %s raised %s but no "Layer: ...%s.%s" entry is among the '
                                 'errors the runner recorded (%s)' % (lname, hook, exc, lname, hook, recorded[:4])))
                    break
    if len(p.blocks) >= 2 and p.total is None:
        viol.append(('C04/total-missing', 'no "Total:" line although %d layers ran' % len(p.blocks)))
    kinds = common.count_kinds(spec)
    for k in kinds:
        labels.append('kind:' + k)
    nfault = sum(len(L.get('faults') or {}) for L in spec['layers'])
    if nfault:
        labels.append('layer-faults')
    if opts.get('buffer'):
        labels.append('buffer')
    for f in opts.get('extra') or ():
        labels.append('flag:' + f)
    if any(t.get('exc') in gen.ODD_EXCS for _, t in gen.iter_tests(spec)):
        labels.append('odd-exception-in-test')
    if any(x in gen.ODD_EXCS for L in spec['layers'] for x in (L.get('faults') or {}).values()):
        labels.append('odd-exception-in-layer')
    labels.append('v%d' % opts.get('verbose', 0))
    multi = any(model.n_events(t) >= 2 for _, t in gen.iter_tests(spec))
    if multi:
        labels.append('multi-event-test')
    if len(traceana.by_pid(run.trace)) > 1:
        labels.append('children')
    total = sum(len(v) for v in sel.values())
    nontrivial = (n_bad + nfault) >= 1 and total >= 2
    key = None
    return Outcome(viol, labels, nontrivial, key)


class InProc(Part):
    name = 'inproc'
    examples = {'quick': 3000, 'thorough': 60000}

    def strategy(self, tier):
        return cases()

    def execute(self, case):
        spec = common.with_prefix(case['spec'])
        run = drive.run_inproc(spec, common.args_of(case['opts']))
        return oracle(spec, case['opts'], run)


class Procs(Part):
    name = 'procs'
    examples = {'quick': 160, 'thorough': 2400}

    def strategy(self, tier):
        return cases(procs=True)

    def execute(self, case):
        spec = common.with_prefix(case['spec'])
        run = drive.run_inproc(spec, common.args_of(case['opts']), disk=True)
        return oracle(spec, case['opts'], run)


class C04(Prop):
    id = 'C04'
    registered = True
    technique = ('Hypothesis-generated worlds with every outcome kind x phase x exception class x --buffer x -v, '
                 'faulty layer hooks, in-process and in child runners; containment oracle over trace + output')
    level_text = ('Worlds whose tests raise in setUp/body/subtest/tearDown/cleanup (20 exception classes incl. '
                  'unprintable ones, several events per test), whose layers raise in setUp/tearDown, with and without '
                  '--buffer and at every verbosity, are run; the run must return with a verdict, every other selected '
                  'test whose layers can be set up must still start once per iteration, every set-up layer must get '
                  'its tear-down attempt and the per-layer summaries and Total line must be present.')
    level_note = ('Per-test layer hooks that raise are out of scope here (C18). The console stream is assumed able to '
                  'encode what is printed (capture stream with backslashreplace).')
    rule = ('Hypothesis worlds (0..4 layers, 1..2 modules, tests of 15 outcome kinds with 30 exception classes incl. cyclic/unhashable/compile-error/group ones, '
            'output actions incl. undecodable bytes, faulty layer hooks), options --buffer, -v 0..3, --repeat, 0..2 reporting flags (-c -p -1 --auto-progress --slow-test=0 --ndiff/--udiff/--cdiff -C); procs '
            'part adds NotImplementedError tear-downs and -j 2 so that tests run in child runners. Non-trivial = >=1 '
            'faulty test or layer hook and >=2 selected tests. Distinct by hash of (spec, options).')
    assumptions = ('KeyboardInterrupt is not generated (it is documented to end the run)',
                   'tests whose layer stack cannot be set up are not required to run')
    parts = (InProc(), Procs())


PROP = C04()
