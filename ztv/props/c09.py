"""C09 - nearest layer/level declaration wins; level and unit switches as documented."""
from hypothesis import strategies as st

from .. import drive, gen, model, parse
from ..engine import Outcome, Part, Prop
from . import common


@st.composite
def cases(draw):
    spec = draw(gen.worlds(max_layers=3, min_layers=1, hooks='layer', kinds=('pass',), max_modules=2, depth=4,
                           max_tests=2, levels=True, inst_attrs=True, explicit_unit=True, layer_decl=45,
                           max_children=2))
    # declared levels: stretch a few to 0 / negative / large values
    levels = set()

    def walk(node):
        if 'level' in node:
            levels.add(node['level'])
        for ch in node.get('ch', ()):
            walk(ch)
        for t in node.get('tests', ()):
            if 'ilevel' in t:
                levels.add(t['ilevel'])
    for m in spec['modules']:
        walk(m['tree'])
    levels.add(1)
    lv = sorted(levels)
    around = sorted({x + d for x in lv for d in (-1, 0, 1)})
    mode = draw(st.sampled_from(['default', 'at', 'at', 'all', 'only', 'only', 'at+all']))
    opts = {}
    if mode in ('at', 'at+all'):
        opts['at_level'] = draw(st.sampled_from(around))
    if mode in ('all', 'at+all'):
        opts['all'] = True
    if mode == 'only':
        opts['only_level'] = draw(st.sampled_from(around))
        if draw(st.integers(0, 3)) == 0:
            opts['at_level'] = draw(st.sampled_from(around))
    opts['unit'] = draw(st.sampled_from([False, False, False, True]))
    opts['non_unit'] = draw(st.sampled_from([False, False, False, True]))
    names = [L['name'] for L in spec['layers']]
    if draw(st.integers(0, 2)) == 0:
        opts['layer'] = draw(common.layer_pattern_strategy(names + ['UnitTests']))
    opts['list'] = draw(st.sampled_from([True, True, False]))
    # where the switches come from: the command line, or the defaults a test script hands to run() - one option set
    movable = [k for k in ('unit', 'non_unit', 'all', 'at_level', 'only_level') if opts.get(k) not in (None, False)]
    if movable and draw(st.integers(0, 2)) == 0:
        opts['in_defaults'] = draw(st.lists(st.sampled_from(movable), min_size=1, max_size=len(movable), unique=True))
    return {'spec': spec, 'opts': opts}


def expected(spec, opts):
    only = opts.get('only_level')
    at = opts.get('at_level')
    if at is None:
        at = 1
    return model.select(spec, layer_pats=opts.get('layer') or None, at_level=at, all_levels=bool(opts.get('all')),
                        only_level=only, unit=bool(opts.get('unit')), non_unit=bool(opts.get('non_unit')))


class InProc(Part):
    name = 'inproc'
    examples = {'quick': 2500, 'thorough': 50000}

    def strategy(self, tier):
        return cases()

    procs = False

    def execute(self, case):
        spec = common.with_prefix(case['spec'])
        opts = dict(case['opts'])
        moved = opts.get('in_defaults') or []
        if self.procs:
            # every layer in a subprocess of its own: each child discovers the tests again and keeps its layer's
            opts['list'] = False
            opts['j'] = 2
        run = drive.run_inproc(spec, common.args_of({k: v for k, v in opts.items() if k not in moved}),
                               defaults=common.args_of({k: opts[k] for k in moved}), disk=self.procs)
        viol = common.run_escaped(run, 'C09')
        sel = expected(spec, opts)
        want = {ln: sorted(r['str'] for r in recs) for ln, recs in sel.items()}
        if run.exc is None:
            if opts.get('list'):
                p = parse.parse(run.out)
                got = {ln: sorted(names) for ln, names in p.listing}
                if len(p.listing) != len(got):
                    viol.append(('C09/layer-listed-twice', 'listing headers %s' % [ln for ln, _ in p.listing]))
            else:
                w = common.traceana.World(spec)
                got = {}
                for _, tid in common.test_starts(run.trace):
                    rec = w.tests[tid]
                    # the layer a test really ran under: read from the surrounding 'Running' block is the
                    # runner's claim; the trace tells which tests ran, the claim tells under which layer
                    got.setdefault(None, []).append(rec['str'])
                p = parse.parse(run.out)
                claimed = {}
                for b in p.blocks:
                    if self.procs and b.layer == '.EmptyLayer':
                        continue
                    claimed[b.layer] = sum(r[0] for r in b.ran)
                ran = sorted(got.get(None, []))
                want_all = sorted(s for v in want.values() for s in v)
                if ran != want_all:
                    viol.append(('C09/wrong-tests-executed', 'options %s: executed %s, expected %s'
                                 % (common.args_of(opts), _sh(ran, spec), _sh(want_all, spec))))
                want_counts = {ln: len(v) for ln, v in want.items()}
                if claimed != want_counts:
                    viol.append(('C09/wrong-layer-attribution', 'options %s: per-layer test counts %s, expected %s'
                                 % (common.args_of(opts), claimed, want_counts)))
                got = None
            if got is not None and got != want:
                viol.append(('C09/wrong-listing', 'options %s: listed %s, expected %s'
                             % (common.args_of(opts), _shd(got, spec), _shd(want, spec))))
        # labels / non-triviality
        labels = []
        competing = False
        boundary = False
        at = opts.get('at_level', 1) if opts.get('at_level') is not None else 1
        for rec in model.resolve(spec):
            if opts.get('only_level') is not None or rec['level'] == at:
                boundary = True
        competing = _competing(spec)
        if competing:
            labels.append('competing-declarations')
        if boundary:
            labels.append('level-boundary')
        for k in ('unit', 'non_unit', 'all'):
            if opts.get(k):
                labels.append(k)
        if opts.get('unit') and opts.get('non_unit'):
            labels.append('unit+non_unit')
        if opts.get('only_level') is not None:
            labels.append('only-level')
        labels.append('list' if opts.get('list') else 'run')
        if opts.get('in_defaults'):
            labels.append('switches-in-defaults')
        return Outcome(viol, labels, competing and boundary)


def _competing(spec):
    """some root-to-test path carries >=2 declarations of layer or of level"""
    def walk(node, nl, nv):
        nl += 'layer' in node
        nv += 'level' in node
        if node['t'] == 's':
            return any(walk(ch, nl, nv) for ch in node['ch'])
        for t in node.get('tests', ()):
            if nl + ('ilayer' in t) >= 2 or nv + ('ilevel' in t) >= 2:
                return True
        return False
    return any(walk(m['tree'], 0, 0) for m in spec['modules'])


def _sh(names, spec):
    return [n.replace(spec['mp'], '') for n in names]


def _shd(d, spec):
    return {k.replace(spec['mp'], ''): _sh(v, spec) for k, v in d.items()}


class Procs(InProc):
    """the same worlds with -j 2: every layer subprocess discovers the tests again and must keep exactly its layer's"""
    name = 'procs'
    examples = {'quick': 96, 'thorough': 2000}
    procs = True


class C09(Prop):
    id = 'C09'
    registered = True
    technique = 'Hypothesis-generated suite trees with layer/level declarations at every depth vs. a reference resolver; --list-tests output and executed trace compared, in process and with every layer in a subprocess (-j 2)'
    level_text = 'Suite trees up to depth 5 with competing layer/level declarations (suite, class, instance), level options around every declared level and all -u/-f/--layer combinations are run; the listing per layer (or the executed set + per-layer counts) must equal the reference selection computed from the spec.'
    level_note = 'Trusts the reference resolver in ztv/model.py (written from the statement); reserved unit-layer name not used inside other layer names.'
    rule = ('Hypothesis worlds: suite trees up to depth 5 with layer/level present or absent at every depth, on the '
            'case class and on the test instance (levels -1..4), options --at-level around the declared levels, '
            '--all, --only-level, -u/-f/--layer in all combinations; compared with --list-tests output (3/4) or with '
            'the executed trace + per-layer counts (1/4); procs part: the same worlds with -j 2. Non-trivial = some test path carries >=2 competing '
            'declarations AND (a test level equals --at-level or --only-level is given).')
    assumptions = ('layer names containing the reserved unit-layer name as a substring are not generated',
                   '-u together with -f is neutral: --layer still applies')
    parts = (InProc(), Procs())


PROP = C09()
