"""C01 - tests run with exactly their layer stack set up; layers nest like a stack."""
from hypothesis import strategies as st

from .. import drive, gen, model, parse, traceana
from ..engine import Outcome, Part, Prop
from . import common


@st.composite
def cases(draw, procs=False):
    faults = draw(st.sampled_from([None, None, {'setUp': 15}, {'tearDown': 15}, {'setUp': 12, 'tearDown': 12}]))
    nie = draw(st.sampled_from([25, 40, 60])) if procs else 0
    spec = draw(gen.worlds(max_layers=6, min_layers=2, hooks='any', faults=faults, nie=nie,
                           kinds=('pass', 'pass', 'fail', 'error', 'skip_body'), max_modules=2, depth=2,
                           max_tests=3, weights_good=80, layer_decl=90, explicit_unit=True, max_children=4))
    # (NotImplementedError tear-downs only matter in directed topologies: half of the procs worlds are shaped)
    if draw(st.integers(0, 1 if procs else 5)) == 0:
        # (with subprocesses the scenarios that involve a NotImplementedError tear-down are drawn more often)
        spec = draw(gen.shaped_world(nie=procs, focus=('sweep-exc+nie', 'sweep-nie+exc', 'nie-with-base-left',
                                                       'derived-setup+base-nie', 'derived-setup+base-nie')
                                     if procs else None))
    # layer-level hooks should be common, otherwise the trace sees little
    for L in spec['layers']:
        if draw(st.integers(0, 99)) < 60:
            L['hooks'] = sorted(set(L['hooks']) | {'setUp', 'tearDown'}, key=gen.HOOKS.index)
    no_spawn = False
    if procs and draw(st.integers(0, 5)) == 0:
        # after this test no further subprocess can be started from the process that ran it (sys.executable is gone):
        # layers that must run in fresh subprocesses are then lost, but never run in a process that is stuck with a layer.
        # Preferably a test of a layer that cannot be torn down (it runs in the coordinating process).
        nie_layers = {i for i, L in enumerate(spec['layers']) if (L.get('faults') or {}).get('tearDown') == 'NIE'}
        pairs = list(gen.iter_tests(spec))
        pref = [t for node, t in pairs if node.get('layer') in nie_layers]
        pool = pref or [t for _, t in pairs]
        t = pool[draw(st.integers(0, len(pool) - 1))]
        t.setdefault('acts', {}).setdefault('body', []).append(['set_executable', '/nonexistent/ztv/python'])
        no_spawn = True
    names = [L['name'] for L in spec['layers']]
    opts = {'repeat': draw(st.sampled_from([1, 1, 1, 2])),
            'shuffle': draw(st.one_of(st.none(), st.integers(0, 999))),
            'verbose': draw(st.integers(0, 2)),
            'stop': draw(st.integers(0, 9)) == 0,
            'layer': draw(common.layer_pattern_strategy(names)) if draw(st.booleans()) else []}
    if procs:
        opts['j'] = draw(st.sampled_from([None, None, 2, 3]))
        if spec.get('shaped') and draw(st.integers(0, 3)):
            # the directed scenarios are about what the *coordinating* process does between layers: mostly run them
            # sequentially and unfiltered, so that the scenario is not optioned away
            opts['j'] = None
            opts['layer'] = []
            opts['stop'] = False
        if no_spawn and draw(st.integers(0, 3)):
            opts['j'] = None
            opts['layer'] = []
    return {'spec': spec, 'opts': opts}


def oracle(spec, opts, run, procs):
    w = traceana.World(spec)
    viol = common.run_escaped(run, 'C01')
    pids = traceana.by_pid(run.trace)
    nie_pids = set()
    for pid, evs in pids.items():
        label = ' (parent)' if pid == run.main_pid else ' (child)'
        viol += traceana.check_layer_stack(w, evs, label)
        if any(e['ev'] == 'L' and e['h'] == 'tearDown' and e['ph'] == 'raise' and e.get('exc') == 'NIE'
               for e in evs):
            nie_pids.add(pid)
    parsed = parse.parse(run.out)
    viol += traceana.check_claimed_stack(w, parsed)
    labels = []
    # fresh subprocess clause: a child pid serves exactly one layer and starts from nothing
    for pid, evs in pids.items():
        if pid == run.main_pid:
            continue
        layers_here = set()
        for e in evs:
            if e['ev'] == 'T' and e['ph'] == 'setUp':
                rec = w.tests.get(e['id'])
                if rec is not None:
                    layers_here.add(rec['layer_name'])
        if len(layers_here) > 1:
            viol.append(('C01/child-runs-several-layers', 'subprocess %s ran tests of layers %s'
                         % (pid, sorted(layers_here))))
    # after a NotImplementedError tear-down in the parent, the remaining runnable layers must still run
    no_spawn = any(e['ev'] == 'set_executable' and e['pid'] == run.main_pid for e in run.trace)
    if no_spawn:
        labels.append('subprocesses-cannot-be-started')
    if not opts.get('stop') and run.exc is None and not no_spawn:
        sel = model.select(spec, layer_pats=opts.get('layer') or None)
        ok_layers = common.runnable_layers(w, spec)
        started = {}
        for pid, tid in common.test_starts(run.trace):
            started.setdefault(tid, set()).add(pid)
        for ln, recs in sel.items():
            li = w.full.get(ln)
            if li != model.UNIT and li not in ok_layers:
                continue
            for rec in recs:
                if not model.starts(rec['t'], rec['skip_class']):
                    continue
                if rec['id'] not in started:
                    viol.append(('C01/layer-not-run' + ('-after-NIE' if nie_pids else ''),
                                 'test %s of layer %s never started in any process' % (rec['id'], ln)))
                    break
    if run.main_pid in nie_pids:
        labels.append('NIE-in-parent')
    if len(pids) > 1:
        labels.append('children:%d' % min(4, len(pids) - 1))
    nfault = sum(len(L.get('faults') or {}) for L in spec['layers'])
    if nfault:
        labels.append('faults')
    hooked = sum(1 for i in range(len(spec['layers'])) if w.has(i, 'setUp') and w.has(i, 'tearDown'))
    # a switch that tears down a non-base layer: two selected layers neither of which is a base of the other
    used = sorted({rec['layer'] for rec in w.tests.values() if rec['layer'] != model.UNIT})
    switch = any(a != b and not w.is_base_of(a, b) and not w.is_base_of(b, a) and w.has(a, 'tearDown')
                 for a in used for b in used)
    if switch:
        labels.append('switch-tears-down')
    if opts.get('layer'):
        labels.append('--layer')
    if opts.get('j'):
        labels.append('-j')
    nontrivial = hooked >= 2 and (switch or nfault > 0)
    return Outcome(viol, labels, nontrivial)


class InProc(Part):
    name = 'inproc'
    examples = {'quick': 2400, 'thorough': 40000}

    def strategy(self, tier):
        return cases(procs=False)

    def execute(self, case):
        spec = common.with_prefix(case['spec'])
        run = drive.run_inproc(spec, common.args_of(case['opts']))
        return oracle(spec, case['opts'], run, False)


class Procs(Part):
    """NotImplementedError tear-downs and -j: the parent runs in the worker, children are real runner processes"""
    name = 'procs'
    examples = {'quick': 160, 'thorough': 2400}
    shrink_cap = {'quick': 60, 'thorough': 300}

    def strategy(self, tier):
        return cases(procs=True)

    def execute(self, case):
        spec = common.with_prefix(case['spec'])
        run = drive.run_inproc(spec, common.args_of(case['opts']), disk=True)
        return oracle(spec, case['opts'], run, True)


class Sched(Part):
    """-j N (with and without -x) under a harness-owned schedule: the layer subprocesses wait at barrier points inside
    their tests and are released one at a time; whatever one child's outcome makes the parent do, the stack discipline
    holds in every process (in particular: every layer that was set up gets its tear-down)"""
    name = 'sched'
    examples = {'quick': 32, 'thorough': 600}
    shrink_cap = {'quick': 60, 'thorough': 300}

    def strategy(self, tier):
        from . import c16
        return st.tuples(c16.sched_cases(), st.booleans()).map(lambda x: dict(x[0], stop=x[1]))

    def execute(self, case):
        import copy

        from . import c06
        spec = common.with_prefix(copy.deepcopy(case['spec']))
        args = (['-x'] if case['stop'] else []) + ['-j', str(case['n'])] + ['-v'] * case['verbose']
        with drive.World(spec) as W:
            run, info = c06.run_scheduled(W, args, case['n'], dict(case['barriers']), case['prio'], settle=0.5)
        viol = []
        if info['parent_timeout'] or run.exit not in (0, 1) or 'Traceback (most recent call last)' in run.err:
            viol.append(('C01/run-aborted/sched', 'exit status %s (timeout %s), stderr: %s'
                         % (run.exit, info['parent_timeout'], run.err[-300:])))
        w = traceana.World(spec)
        if not viol:
            for pid, evs in traceana.by_pid(run.trace).items():
                viol += traceana.check_layer_stack(w, evs, ' (parent)' if pid == run.main_pid else ' (child)')
        first = case['prio'][0] == case['bad']
        labels = ['N=%d' % case['n'], '-x' if case['stop'] else 'no -x'] + (['bad-layer-finishes-first'] if first else [])
        return Outcome(viol, labels, first and not info['stalled'])


class C01(Prop):
    id = 'C01'
    registered = True
    technique = 'Hypothesis-generated layer DAGs/faults/options run through the real Runner (children are real runner processes); stack invariant over the pid-tagged hook trace and over the printed lines'
    level_text = 'Generated layer graphs (single/multiple inheritance, class/instance, any hook subset), fault placements (setUp/tearDown exception, NotImplementedError) and option sets (--layer,-x,--repeat,--shuffle,-j) are run; a state invariant (set-up set == test closure, bases before, derived torn down first, exactly one tear-down attempt, nothing after NotImplementedError, remaining layers in fresh processes) is checked at every event of every process.'
    level_note = "Trusts the world runtime to log hooks faithfully; hook-less layers are only observed through the runner's own Set up/Tear down lines; MemoryError/EndRun paths are not driven."
    rule = ('Hypothesis worlds: layer DAG (2..6 layers, class/instance, multiple inheritance, any hook subset), '
            'setUp/tearDown faults (exception or NotImplementedError), tests spread over layers incl. the unit '
            'layer, options --layer/-x/--repeat/--shuffle/-j. Oracle: stack invariant over the per-pid hook trace '
            '+ the same discipline over the printed Set up/Tear down lines. Non-trivial = >=2 layers with both '
            'hooks AND (two used layers neither of which is a base of the other, or a faulty hook). '
            'Distinct by hash of (spec, options).')
    assumptions = ('hooks log the layer they are called on; class layers inherit hooks (runner uses hasattr)',
                   'a layer with only one of setUp/tearDown is observed through the hook it has; hook-less layers '
                   'are observed through the runner\'s own "Set up"/"Tear down" lines')
    parts = (InProc(), Procs(), Sched())


PROP = C01()
