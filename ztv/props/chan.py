"""Shared by C02 and C07: worlds whose layers run in subprocesses, noise on every stream, child deaths, reports
that are cut short, spawn failures - and the trace-based account of what really happened to each child."""
import re
from collections import Counter

from hypothesis import strategies as st

from .. import model

HOWS = ('exit0', 'exit3', 'kill', 'segv')
CHANNEL = ('fd2', 'oe')          # reach the pipe the child's report travels on
STDOUT_SIDE = ('fd1', 'o', 'e', 'p')   # in a child sys.stderr is sys.stdout


def norm(name):
    """the documented normalisation of a transported name: line breaks/blank runs become one blank, ends stripped"""
    return ' '.join(name.split())


def header_shaped(line):
    """would the parent's reader take this (bytes) line for a report header?"""
    f = line.strip().split()
    if len(f) not in (3, 4):
        return False
    try:
        [int(x) for x in f]
    except ValueError:
        return False
    return True


@st.composite
def noise_units(draw, big=False):
    kind = draw(st.sampled_from(['text', 'text', 'header', 'header', 'unterminated', 'binary', 'big'] if big else
                                ['text', 'text', 'header', 'header', 'unterminated', 'binary']))
    if kind == 'text':
        return [draw(st.text(alphabet='abc xyz:.\t', min_size=1, max_size=30)) + '\n', draw(st.integers(1, 3))]
    if kind == 'header':
        a, b, c = draw(st.integers(0, 40)), draw(st.integers(0, 3)), draw(st.integers(0, 3))
        form = draw(st.sampled_from(['%d %d %d\n', '%d %d %d\n', ' %d  %d %d \n', '%d %d %d 0\n', '%d\t%d\t%d\n',
                                     '%d %d %d\r\n']))
        if draw(st.booleans()):
            b = c = 0
        return [form % (a, b, c), 1]
    if kind == 'unterminated':
        return [draw(st.sampled_from(['x', 'noise without newline', '1', '7 ', 'abc\ndef', '\n\nzz'])), 1]
    if kind == 'binary':
        return [draw(st.sampled_from(['\xff\xfe\x00bin\n', '\x00\x00\n', '\xc3\n', 'caf\xc3\xa9 \xe2\x82\xac\n'])), 1]
    # big: many lines, enough to fill any pipe several times over
    unit = draw(st.sampled_from(['%s\n' % ('n' * 99), '3 0 0 filler line that is no header\n', 'z' * 4095 + '\n']))
    total = draw(st.sampled_from([70_000, 200_000, 1_000_000]))
    return [unit, max(1, total // len(unit))]


@st.composite
def noise_action(draw, streams, big=False, child_only=True, layer=None):
    unit, count = draw(noise_units(big=big))
    stream = draw(st.sampled_from(streams))
    act = ['noise', stream, unit, count]
    if child_only:
        act = ['in_child', act] + ([layer] if layer else [])
    return act


def cut_strategy():
    return st.one_of(
        st.tuples(st.just('line'), st.integers(0, 5), st.sampled_from([-1, 0, 1, -2, 2])).map(list),
        st.tuples(st.just('line'), st.integers(0, 2000), st.sampled_from([-1, 0, 1])).map(list),
        st.tuples(st.just('frac'), st.integers(0, 1000)).map(list),
        st.tuples(st.just('abs'), st.integers(0, 40)).map(list),
    )


# ------------------------------------------------------------------------------------------------------
# what happened to each child, read from the trace


class Child:
    def __init__(self, pid):
        self.pid = pid
        self.layer = None         # full layer name from --resume-layer
        self.died = None          # (how, where) of a 'die' event
        self.report = None        # bytes the child's runner wrote as its report (complete text)
        self.cut = None           # resolved cut offset or None
        self.pre = b''            # channel noise before the report
        self.post = b''           # channel noise after the report
        self.tests = []           # ids of tests that ran here
        self.subfails = {}        # test id -> [(kind, str(subtest))] for failing subtests, as logged when they failed

    @property
    def complete(self):
        """did the full report reach the pipe?"""
        if self.report is None:
            return False
        if self.cut is None or self.cut >= len(self.report):
            return True
        # only the final line terminator is missing: nothing of the data is lost (either reading is accepted)
        return False

    @property
    def only_newline_missing(self):
        return (self.report is not None and self.cut is not None and self.report.endswith(b'\n') and
                self.cut == len(self.report) - 1)

    @property
    def cut_inside_last_line(self):
        """some of the last line got through, but not all of it (the complete lines before it are intact)"""
        if self.report is None or self.cut is None or self.cut >= len(self.report):
            return False
        body = self.report[:-1] if self.report.endswith(b'\n') else self.report
        last_start = body.rfind(b'\n') + 1
        return last_start < self.cut

    @property
    def header_like_noise(self):
        lines = re.split(b'\r\n|\r|\n', self.pre)
        return any(header_shaped(ln) for ln in lines[:-1])

    @property
    def unterminated_noise(self):
        return bool(self.pre) and not self.pre.endswith((b'\n', b'\r'))


def children(run):
    """pid -> Child for every layer subprocess seen in the trace"""
    out = {}
    for e in run.trace:
        pid = e['pid']
        if pid == run.main_pid:
            continue
        c = out.get(pid)
        if c is None:
            c = out[pid] = Child(pid)
        ev = e['ev']
        if ev == 'child':
            c.layer = e['layer']
        elif ev == 'die':
            if e.get('where') != 'report':
                c.died = (e['how'], e['where'])
        elif ev == 'report':
            c.report = e['text'].encode('latin1')
            c.cut = e.get('cut')
        elif ev == 'noise' and e.get('chan'):
            # raw fd writes carry the bytes as given; sys.__stderr__ / sys.stderr are UTF-8 text streams
            data = (e['unit'].encode('latin1') if e['stream'] == 'fd2' else e['unit'].encode('utf-8')) * e['count']
            if c.report is None:
                c.pre += data
            else:
                c.post += data
        elif ev == 'T' and e['ph'] == 'run':
            c.tests.append(e['id'])
        elif ev == 'T' and e['ph'] == 'subfail':
            c.subfails.setdefault(e['id'], []).append((e['kind'], e['s']))
    return out


def names_of(w, ids, subfails=None):
    """(ran, failure names, error names) for the tests (by id, in order) one process ran"""
    fails, errs = Counter(), Counter()
    ran = 0
    for tid in ids:
        rec = w.tests.get(tid)
        if rec is None:
            continue
        ran += 1
        if rec['t']['k'] == 'subtests':
            continue      # named below: a failing subtest is reported under str(subtest)
        f, e, s, u = model.events_of(rec['t'])
        if f + u:
            fails[norm(rec['str'])] += f + u
        if e:
            errs[norm(rec['str'])] += e
    for tid, subs in (subfails or {}).items():
        for kind, name in subs:
            (fails if kind == 'fail' else errs)[norm(name)] += 1
    return ran, fails, errs


def reference_reader(data):
    """What a reader of the documented protocol makes of the bytes on the report pipe: the first line made of 3 or 4
    integers is the header, usable only if all the names it announces follow; returns None ("could not communicate")
    or (ran, failure names, error names).  Used ONLY to recognise the recorded known findings (a reader cannot tell
    header-shaped noise from the header), never to decide what is correct."""
    lines = data.splitlines()
    for i, line in enumerate(lines):
        f = line.strip().split()
        if len(f) not in (3, 4):
            continue
        try:
            counts = [int(x) for x in f]
        except ValueError:
            continue
        nran, nf, ne = counts[:3]
        nf, ne = max(nf, 0), max(ne, 0)
        if len(lines) - i - 1 < nf + ne:
            return None
        names = [n.strip().decode('utf-8', 'replace') for n in lines[i + 1:i + 1 + nf + ne]]
        return nran, Counter(norm(n) for n in names[:nf]), Counter(norm(n) for n in names[nf:])
    return None
