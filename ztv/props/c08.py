"""C08 - filter patterns select by any positive match and no negated match.

Function level: ``build_filtering_func`` against the algebraic spec (``re.search`` itself is the trusted
matcher; what is decided is the combination logic), plus the three consequences (monotone in positive
patterns, anti-monotone in '!'-patterns, order/duplication independence).
End to end: generated worlds run with -t / -m / --layer / legacy positional filters; the executed
tests, imported modules and layers run must be exactly what the spec accepts.
"""
import itertools
import re

from hypothesis import strategies as st

from .. import drive, gen, model, parse
from ..engine import Outcome, Part, Prop
from . import common

# names the runner really feeds to the filters
NAMES = [
    'test_a (pkg.tests.TC.test_a)', 'test_ab (pkg.tests.TC.test_ab)', 'test_b (pkg.sub.tests.TD.test_b)',
    'pkg.tests', 'pkg.sub.tests', 'pkg.ftests.test_x', 'a', 'ab', 'b', 'ba', 'abc', 'x.y.z',
    'zope.testrunner.layer.UnitTests', 'samplelayers.Layer1', 'samplelayers.Layer11', 'samplelayers.Layer12',
    'samplelayers.Layer111', 'doc/file.txt', 'Test (with) parens', 'UPPER.lower', '!bang', 'a!b', ' ', 'a\nb',
    'tests_é', 'x' * 40,
]
POOL = ['a', 'b', 'ab', '^a', 'a$', '.', 'x|b', 'a*', '', 'Layer1$', 'Layer1', 'tests', r'\.', '[ab]c', '(?i)upper',
        'zzz',
        # patterns whose meaning depends on being compiled on their own: inline flags, numbered and named groups with
        # back-references, verbose mode, dangling alternation, look-around
        '(?i)LAYER1', '(?i)b', r'(a)\1', r'(b)\1', r'(a|b)\1', r'(?P<n>a)(?P=n)', r'(x)?(b)\2', '(?x) a b', '(?s)a.b',
        '(?m)^b', 'a|', '|zzz', 'a(?=b)', '(?<!a)b', r'(t)es\1', '(?#c)ab', '(?a)\\w+é']
SMALL_POOL = ['a', 'b', '^a', 'b$', '.', '', 'ab', 'x|b', 'Layer1$', 'tests', 'zzz', r'\.']


def atoms():
    return st.one_of(
        st.sampled_from(POOL),
        st.text(alphabet='ab.tesLyr1_() ', min_size=0, max_size=5).map(re.escape),
        st.tuples(st.sampled_from(['^', '']), st.text(alphabet='abt', min_size=1, max_size=3),
                  st.sampled_from(['$', '', '+', '*', '?'])).map(''.join),
        st.tuples(st.text(alphabet='abx', min_size=1, max_size=2), st.text(alphabet='abx', min_size=1, max_size=2))
        .map(lambda t: '%s|%s' % t),
    )


def pattern_lists():
    pat = st.one_of(atoms(), atoms(), atoms().map(lambda p: '!' + p), st.just('!'))
    return st.lists(pat, min_size=0, max_size=5)


def names():
    return st.one_of(st.sampled_from(NAMES),
                     st.text(alphabet='ab.tesLyr1_() !', min_size=1, max_size=12).filter(lambda s: s.strip('\n')))


def check_func(patterns, name_list, extra_pos=None, extra_neg=None, perm=None):
    from zope.testrunner.filter import build_filtering_func
    viol = []
    if not patterns:
        # no pattern at all is never fed by the runner (defaults are ['.']) and the statement can be read
        # both ways for it; nothing is asserted
        return [], 0
    for p in list(patterns) + [x for x in (extra_pos, extra_neg) if x is not None]:
        try:
            re.compile(p[1:] if p.startswith('!') else p)
        except re.error:
            return [], 0     # not a regular expression: outside the statement's domain
    try:
        return _check_func(build_filtering_func, patterns, name_list, extra_pos, extra_neg, perm, viol)
    except Exception as e:  # noqa: BLE001 - every pattern is valid on its own, so the filter has no reason to raise
        viol.append(('C08/filter-raised', 'patterns %r (each a valid regular expression): %s: %s'
                     % (patterns, type(e).__name__, e)))
        return viol, 0


def _check_func(build_filtering_func, patterns, name_list, extra_pos, extra_neg, perm, viol):
    acc = build_filtering_func(patterns)
    sel = 0
    for nm in name_list:
        got = bool(acc(nm))
        want = model.accepts(patterns, nm)
        if got:
            sel += 1
        if got != want and patterns:   # (no pattern at all: never fed by the runner, both readings accepted)
            viol.append(('C08/spec-mismatch', 'patterns %r name %r: selected=%s, spec says %s'
                         % (patterns, nm, got, want)))
    if perm is not None:
        acc2 = build_filtering_func(perm)
        for nm in name_list:
            if bool(acc2(nm)) != bool(acc(nm)):
                viol.append(('C08/order-dependent', 'patterns %r vs %r differ on %r' % (patterns, perm, nm)))
    if extra_neg is not None:
        acc3 = build_filtering_func(patterns + ['!' + extra_neg])
        for nm in name_list:
            if acc3(nm) and not acc(nm):
                viol.append(('C08/negation-selects', 'adding !%r to %r selects %r' % (extra_neg, patterns, nm)))
    if extra_pos is not None and any(not p.startswith('!') for p in patterns):
        # with only '!'-patterns the baseline is "everything" by definition, so monotonicity in
        # positive patterns is only a consequence once a positive pattern exists
        acc4 = build_filtering_func(patterns + [extra_pos])
        for nm in name_list:
            if acc(nm) and not acc4(nm):
                viol.append(('C08/positive-deselects', 'adding %r to %r deselects %r' % (extra_pos, patterns, nm)))
    return viol, sel


class Func(Part):
    name = 'func'
    examples = {'quick': 24000, 'thorough': 800000}
    exhaustive_note = ('all pattern lists of length <=3 over a 12-pattern pool with every subset of positions '
                       'negated, against %d names' % len(NAMES))

    def enumerate(self, tier, w, nworkers):
        k = 0
        pool = SMALL_POOL if tier == 'quick' else SMALL_POOL
        maxlen = 3
        for n in range(0, maxlen + 1):
            for combo in itertools.product(range(len(pool)), repeat=n):
                for negmask in range(1 << n):
                    k += 1
                    if k % nworkers != w:
                        continue
                    if tier == 'quick' and n == 3 and (k // nworkers) % 4:
                        continue
                    yield {'enum': True, 'patterns': [('!' if negmask >> i & 1 else '') + pool[c]
                                                      for i, c in enumerate(combo)]}

    def strategy(self, tier):
        return st.fixed_dictionaries({
            'patterns': pattern_lists(),
            'names': st.lists(names(), min_size=1, max_size=6),
            'extra_pos': atoms(), 'extra_neg': atoms(),
            'perm_seed': st.integers(0, 5039), 'dup': st.booleans(),
        })

    def execute(self, case):
        pats = case['patterns']
        if case.get('enum'):
            viol, sel = check_func(pats, NAMES)
            nm = NAMES
        else:
            perm = list(pats)
            # deterministic permutation chosen by the generated seed (+ optional duplication)
            s = case['perm_seed']
            out = []
            while perm:
                out.append(perm.pop(s % len(perm)))
                s //= 7
            if case['dup'] and out:
                out = out + out[:2]
            nm = case['names'] + NAMES[:8]
            try:
                re.compile(case['extra_pos']), re.compile(case['extra_neg'])
            except re.error:
                return Outcome([], ['bad-regex'], False)
            viol, sel = check_func(pats, nm, case['extra_pos'], case['extra_neg'], out)
        pos = [p for p in pats if not p.startswith('!')]
        neg = [p[1:] for p in pats if p.startswith('!')]
        labels = []
        if pos and neg:
            labels.append('pos+neg')
        elif neg:
            labels.append('only-neg')
        elif pos:
            labels.append('only-pos')
        else:
            labels.append('empty')

        def hits(ps):
            for p in ps:
                try:
                    if any(re.search(p, x) for x in nm):
                        return True
                except re.error:
                    pass
            return False
        nontrivial = bool(pos and neg and hits(pos) and hits(neg))
        return Outcome(viol, labels, nontrivial)


# ----------------------------------------------------------------------------------------------------
# end to end


@st.composite
def e2e_cases(draw):
    spec = draw(gen.worlds(max_layers=3, min_layers=0, hooks='layer', kinds=('pass',), max_modules=3, depth=1,
                           max_tests=4, layer_decl=60, explicit_unit=True, max_children=3))
    lnames = [L['name'] for L in spec['layers']]
    mnames = [m['name'] for m in spec['modules']]
    tnames = sorted({t['n'] for _, t in gen.iter_tests(spec)})
    cnames = sorted({node['name'] for node, _ in gen.iter_tests(spec)})

    def pats(words, extra=()):
        base = st.one_of(st.sampled_from(list(words) + list(extra)),
                         st.sampled_from(list(words)).map(lambda s: s + '$'),
                         # (a comma is an ordinary character of a regular expression: counted repetition, classes)
                         st.sampled_from(list(words)).map(lambda s: s[:-1] + '[%s,_]' % s[-1] if s else s),
                         st.sampled_from(list(words)).map(lambda s: s + '{1,2}$' if s and s[-1].isalnum() else s),
                         st.sampled_from(['.', 'zzz', '^t', '_', 'T', '[ab]$', '', '[A,B]$', 'L{1,}']))
        return st.lists(st.one_of(base, base, base.map(lambda p: '!' + p)), max_size=3)

    opts = {
        'test': draw(pats(tnames + cnames, ['test_[a-c]', r'TC\d \(', r'\.TC1\.'])),
        'module': draw(pats(['t_' + m for m in mnames], ['t_[ab]$', '^w'])),
        # ('{mp}' is replaced by the world's module prefix when the case is executed: full dotted layer names)
        'layer': draw(pats((lnames or ['LA']) + ['{mp}layers.%s' % n for n in lnames], ['UnitTests', 'layers', 'zope',
                                                                                          'zope.testrunner.layer.UnitTests'])),
        'verbose': draw(st.integers(0, 1)),
    }
    # (the worlds declare no levels, so every spelling of the level options selects every test: filters and level
    # options are independent of each other)
    lv = draw(st.sampled_from(['all', 'all', 'none', 0, -1, 1, 3]))
    if lv == 'all':
        opts['all'] = True
    elif lv != 'none':
        opts['at_level'] = lv
    # modules in packages, packages searched again through --package-path (the -m filter sees the full dotted name)
    for m in spec['modules']:
        pkg = draw(st.sampled_from([None, None, 'pk', 'pk.sub']))
        if pkg:
            m['pkg'] = pkg
    used = sorted({m['pkg'] for m in spec['modules'] if m.get('pkg')})
    if used and draw(st.booleans()):
        spec['package_paths'] = draw(st.lists(st.sampled_from(used), min_size=1, max_size=2, unique=True))
    if used:
        opts['module'] = opts['module'] + draw(st.lists(st.sampled_from(
            ['pk', r'pk\.', '!pk', r'^{mp}pk\.', r'sub\.', '!sub', r'^{mp}t_']), max_size=2))
    legacy = draw(st.sampled_from([None, None, 'mod', 'mod+test', 'dot+test']))
    opts['legacy'] = None
    if legacy:
        lm = '.' if legacy.startswith('dot') else draw(st.sampled_from(['t_' + m for m in mnames] + ['!t_' + mnames[0]]))
        lt = draw(st.sampled_from(tnames + ['!' + tnames[0]])) if 'test' in legacy else None
        opts['legacy'] = [lm, lt]
    return {'spec': spec, 'opts': opts}


class EndToEnd(Part):
    name = 'e2e'
    examples = {'quick': 640, 'thorough': 12000}

    def strategy(self, tier):
        return e2e_cases()

    def execute(self, case):
        spec = common.with_prefix(case['spec'])
        opts = dict(case['opts'])
        for k in ('layer', 'module'):
            opts[k] = [p.replace('{mp}', spec['mp']) for p in opts[k]]
        args = common.args_of(opts)
        tp, mp, lp = list(opts['test']), list(opts['module']), list(opts['layer'])
        if opts.get('legacy'):
            lm, lt = opts['legacy']
            # legacy positional filters are documented as deprecated spellings of --module / --test
            pos = [lm] + ([lt] if lt else [])
            if pos[0].startswith('!'):
                args = args + ['--'] + pos
            else:
                args = pos + args
            if lm != '.':
                mp.append(lm)
            if lt:
                tp.append(lt)
        run = drive.run_inproc(spec, args, disk=True)
        viol = common.run_escaped(run, 'C08')
        sel = model.select(spec, test_pats=tp or None, module_pats=mp or None, layer_pats=lp or None,
                           all_levels=True)
        want = sorted(rec['id'] for recs in sel.values() for rec in recs)
        got = sorted(tid for _, tid in common.test_starts(run.trace))
        if run.exc is None and got != want:
            viol.append(('C08/e2e-wrong-tests', 'options %r: executed %s, spec selects %s'
                         % (args, _short(got, spec), _short(want, spec))))
        want_mods = sorted(model_modname(spec, m) for m in spec['modules']
                           if not mp or model.accepts(mp, model_modname(spec, m)))
        got_mods = sorted(e['module'] for e in run.trace if e['ev'] == 'import')
        if run.exc is None and got_mods != want_mods:
            viol.append(('C08/e2e-wrong-modules', 'options %r: imported %s, spec accepts %s'
                         % (args, got_mods, want_mods)))
        p = parse.parse(run.out)
        got_layers = sorted(b.layer for b in p.blocks)
        want_layers = sorted(sel)
        if run.exc is None and got_layers != want_layers:
            viol.append(('C08/e2e-wrong-layers', 'options %r: layers run %s, spec selects %s'
                         % (args, got_layers, want_layers)))
        labels = []
        for nm, ps in (('-t', tp), ('-m', mp), ('--layer', lp)):
            if any(x.startswith('!') for x in ps) and any(not x.startswith('!') for x in ps):
                labels.append(nm + ':pos+neg')
            elif ps:
                labels.append(nm)
        if opts.get('legacy'):
            labels.append('legacy-positional')
        if case['spec'].get('package_paths'):
            labels.append('package-path')
        if any(p.startswith(spec['mp'] + 'layers.') or p.startswith('!' + spec['mp'] + 'layers.') for p in lp):
            labels.append('full-layer-name-pattern')
        total = sum(1 for _ in gen.iter_tests(spec))
        nontrivial = 0 < len(want) < total and any(':pos+neg' in x for x in labels)
        return Outcome(viol, labels, nontrivial)


def model_modname(spec, m):
    from .. import runtime
    return runtime.test_modname(spec, m)


def _short(ids, spec):
    return [i.replace(spec['mp'], '') for i in ids]


class C08(Prop):
    id = 'C08'
    registered = True
    technique = 'exhaustive small pattern pool + Hypothesis pattern lists vs. algebraic spec; metamorphic laws; end-to-end generated worlds with -t/-m/--layer/legacy filters'
    level_text = 'build_filtering_func is compared pointwise with the three-line spec over generated pattern lists and names, with permutation/duplication invariance and the two monotonicity laws; end to end the executed tests, imported modules and layers run of generated worlds must equal what the spec selects.'
    level_note = 'Trusts re.search as matcher; empty pattern lists (never fed by the runner) are not asserted.'
    rule = ('func: pattern lists from a small regex grammar (literals, anchors, alternation, repetition, empty, '
            'duplicates, "!"-prefixed, "!" alone, inline flags, groups with back-references, verbose mode, look-around) x names as fed by the runner (test str, dotted module, layer '
            'name); exhaustive over lists of <=3 patterns from a 12-pattern pool x negation masks. e2e: generated '
            'worlds run with -t/-m/--layer/legacy filters, executed tests/imported modules/layers vs. the spec. '
            'Non-trivial = at least one positive and one negated pattern, both matching some name (func) / '
            'a proper non-empty selection with mixed patterns (e2e).')
    assumptions = ('re.search is the trusted matcher', 'names are non-empty and contain a non-newline character',
                   'monotonicity in positive patterns is asserted only when a positive pattern already exists')
    parts = (Func(), EndToEnd())


PROP = C08()
