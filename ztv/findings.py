"""KNOWN_FINDINGS.json handling.

The file is committed and never written at run time.  Layout::

    {"known": [{"property": "C07", "signature": "C07/...", "what": "..."}],
     "fixed": [{"property": "C20", "commit": "<sha>", "what": "..."}]}

``known`` entries suppress exactly the violations whose signature equals ``signature`` (a signature
names the clause and the coarse cause, see DESIGN.md 2.4); ``fixed`` entries suppress nothing.
"""
import json
import os

from . import boot

PATH = os.path.join(boot.VERIF_DIR, 'KNOWN_FINDINGS.json')


def load():
    try:
        with open(PATH) as f:
            data = json.load(f)
    except FileNotFoundError:
        data = {}
    data.setdefault('known', [])
    data.setdefault('fixed', [])
    return data


def known_for(prop_id):
    return {e['signature']: e for e in load()['known'] if e['property'] == prop_id}
