"""Wrapper used as argv[0]/script_parts: bootstrap the namespace, then run zope.testrunner.

Layer subprocesses are spawned by the runner as ``[sys.executable] + script_parts + ...`` so they
come through here as well.
"""
import os
import sys

sys.path.insert(0, os.path.dirname(os.path.dirname(os.path.abspath(__file__))))
from ztv import boot  # noqa: E402

boot.bootstrap()

# Harness safety net (never reached on the unchanged tree, where a layer subprocess never starts further
# subprocesses): a broken runner whose children re-spawn themselves must not become a fork bomb.
_depth = int(os.environ.get('ZTV_DEPTH', '0') or 0) + 1
os.environ['ZTV_DEPTH'] = str(_depth)
if _depth > 3:
    sys.stderr.write('ztv: runner processes nested %d deep, giving up\n' % _depth)
    sys.stderr.flush()
    os._exit(97)

if __name__ == '__main__':
    import zope.testrunner
    zope.testrunner.run()
