"""Wrapper used as argv[0]/script_parts: bootstrap the namespace, then run zope.testrunner.

Layer subprocesses are spawned by the runner as ``[sys.executable] + script_parts + ...`` so they
come through here as well.
"""
import os
import sys

sys.path.insert(0, os.path.dirname(os.path.dirname(os.path.abspath(__file__))))
from ztv import boot  # noqa: E402

boot.bootstrap()

if __name__ == '__main__':
    import zope.testrunner
    zope.testrunner.run()
