"""Namespace bootstrap.

In this sandbox ``zope.testrunner-*-nspkg.pth`` pre-creates the ``zope`` module with
``__path__ == ['<repo>/src/zope']`` which hides the other ``zope.*`` distributions.  Every harness
process (parent and re-exec'd layer children) calls :func:`bootstrap` first.  Nothing in the
repository is modified: the code under test is always imported from ``$ZTV_REPO_SRC`` (default
``/repo/src``), i.e. from the current working tree.
"""
import os
import sys

REPO_SRC = os.environ.get('ZTV_REPO_SRC', '/repo/src')
VERIF_DIR = os.path.dirname(os.path.dirname(os.path.abspath(__file__)))


def bootstrap():
    if VERIF_DIR not in sys.path:
        sys.path.insert(0, VERIF_DIR)
    if REPO_SRC in sys.path:
        sys.path.remove(REPO_SRC)
    sys.path.insert(0, REPO_SRC)
    import zope
    want = [os.path.join(REPO_SRC, 'zope')]
    for p in list(sys.path):
        d = os.path.join(p, 'zope')
        if p and os.path.isdir(d) and d not in want:
            want.append(d)
    # keep the repo's portion first so zope.testrunner always comes from the working tree
    try:
        zope.__path__[:] = want
    except TypeError:
        zope.__path__ = want
    # a stale zope.testrunner from another location must never be used
    mod = sys.modules.get('zope.testrunner')
    if mod is not None:
        f = getattr(mod, '__file__', '') or ''
        if not f.startswith(REPO_SRC):
            raise RuntimeError('zope.testrunner imported from %r, not from %r' % (f, REPO_SRC))
