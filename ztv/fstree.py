"""Generated directory trees for the discovery (C14) and stale-bytecode (C15) checks."""
import hashlib
import json
import os
import re
import sys

from hypothesis import strategies as st

IDENT_DIRS = ['zqpkg', 'zqsub', 'tests_zqd', 'ftests_zqd', 'zqa1', '_zqpriv', 'tests_zq', 'zqlib',
              'Zqpkg', 'ZQsub', 'tests_Zqd', 'Zqa1']     # (mixed case: ordering is by code point)   # (never installed names)
ODD_DIRS = ['1zqnum', 'zq-dash', 'zq.dot', 'zq space', 'tests_zq-x']
IGNORED_DIRS = ['.git', 'node_modules', '__pycache__', 'CVS', '.svn', '_darcs']

MODULE_SRC = '''\
import json as _json, os as _os, unittest as _unittest
with open(_os.environ['ZTV_TRACE'], 'a') as _fh:
    _fh.write(_json.dumps({'ev': 'imported', 'file': __file__, 'name': __name__, 'pid': _os.getpid()}) + '\\n')


class T(_unittest.TestCase):
    def test(self):
        pass


def test_suite():
    return _unittest.defaultTestLoader.loadTestsFromTestCase(T)
'''

identifier = re.compile(r'[_a-z]\w*$', re.I).match


@st.composite
def trees(draw, max_depth=3, unique_stems=True, bytecode=False):
    """returns a dir node {'name', 'dirs': [...], 'files': [names], 'init': bool}"""
    counter = [0]
    py_stems = []      # stems of source files generated so far (parents before children, as the walk visits them)

    def stem(kind):
        counter[0] += 1
        return '%sq%d' % (kind, counter[0]) if unique_stems else kind + draw(st.sampled_from(['', '1', '2']))

    def files_for(dirname):
        out = []
        # (a directory that can be a "tests package" gets enough files to make their relative order observable)
        n = draw(st.integers(2, 5)) if 'tests' in dirname else draw(st.integers(0, 4))
        for _ in range(n):
            kind = draw(st.sampled_from(['tests_', 'tests_', 'test_', 'test_', 'ftests_', 'other_', 'checks_', 'xtests_', 'atests_',
                                          'ztest_', 'tests_Z', 'test_Z']))
            ext = draw(st.sampled_from(['.py', '.py', '.py', '.py', '.txt', '.pyx', '.py.bak', '.PY']))
            out.append(stem(kind) + ext)
        if bytecode:
            for _ in range(draw(st.integers(0, 4))):
                base = draw(st.sampled_from(['mod', 'tests_', 'test_', 'orph', 'x']))
                s = stem(base)
                shape = draw(st.sampled_from(['py+pyc', 'pyc', 'pyo', 'py+pyo', 'pyc+pyo', 'pyc.bak', 'PYC', 'py+pyc+pyo',
                                               'dotpyc', 'pyc-dir', 'pycx', 'txt', 'py+pyc+orig', 'py+pyo+backups',
                                               'pyc+orig', 'namesake', 'namesake', 'init-pyc']))
                if shape == 'namesake':
                    # bytecode whose stem is the name of a source file in *another* directory (a parent, an earlier
                    # sibling): "beside it" means the same directory
                    if py_stems:
                        out.append(draw(st.sampled_from(py_stems)) + draw(st.sampled_from(['.pyc', '.pyo'])))
                    continue
                if shape == 'init-pyc':
                    out.append('__init__' + draw(st.sampled_from(['.pyc', '.pyo'])))
                    continue
                out += {
                    'py+pyc': [s + '.py', s + '.pyc'], 'pyc': [s + '.pyc'], 'pyo': [s + '.pyo'],
                    'py+pyo': [s + '.py', s + '.pyo'], 'pyc+pyo': [s + '.pyc', s + '.pyo'], 'pyc.bak': [s + '.pyc.bak'],
                    'PYC': [s + '.PYC'], 'py+pyc+pyo': [s + '.py', s + '.pyc', s + '.pyo'], 'dotpyc': ['.pyc'],
                    'pyc-dir': [], 'pycx': [s + '.pycx', s + 'pyc'], 'txt': [s + '.txt'],
                    # files that sort between a source file and its bytecode (x.py < x.py.orig < x.pyc)
                    'py+pyc+orig': [s + '.py', s + '.pyc', s + '.py.orig'],
                    'py+pyo+backups': [s + '.py', s + '.pyo', s + '.py.bak', s + '.py~', s + '.pyi'],
                    'pyc+orig': [s + '.pyc', s + '.py.orig'],
                }[shape]
                if shape == 'pyc-dir':
                    out.append(('dir', s + '.pyc'))
            py_stems.extend(f[:-3] for f in out if isinstance(f, str) and f.endswith('.py'))
            py_stems.append('__init__')
        return out

    def node(name, depth):
        d = {'name': name, 'dirs': [], 'files': [],
             'init': draw(st.sampled_from([True, True, True, True, False] if 'tests' in name else [True, True, False]))}
        seen = set()
        for f in files_for(name):
            if isinstance(f, tuple):
                if f[1] not in seen:
                    seen.add(f[1])
                    d['dirs'].append({'name': f[1], 'dirs': [], 'files': [], 'init': False})
            elif f not in seen:
                seen.add(f)
                d['files'].append(f)
        if depth > 0:
            nsub = draw(st.integers(0, 3))
            for _ in range(nsub):
                pool = draw(st.sampled_from([IDENT_DIRS, IDENT_DIRS, IDENT_DIRS, ODD_DIRS, IGNORED_DIRS]))
                nm = draw(st.sampled_from(pool))
                if pool is IDENT_DIRS and unique_stems:
                    # unique directory names too: with nested roots a repeated name would give two files the
                    # same dotted module name (Python's import system could not tell them apart)
                    counter[0] += 1
                    nm = '%s%d' % (nm, counter[0])
                if nm in seen:
                    continue
                seen.add(nm)
                d['dirs'].append(node(nm, depth - 1))
        return d

    return node('root', max_depth)


def write_tree(tree, base, order_seed=0):
    """materialise below ``base`` (the root node's own name is ignored); creation order is a generated permutation"""
    os.makedirs(base, exist_ok=True)

    def key(name):
        return hashlib.blake2b(('%d/%s' % (order_seed, name)).encode(), digest_size=8).digest()

    def walk(node, path):
        entries = [('f', f) for f in node['files']] + [('d', d) for d in node['dirs']]
        if node.get('init'):
            entries.append(('f', '__init__.py'))
        entries.sort(key=lambda e: key(e[1] if e[0] == 'f' else e[1]['name']))
        for kind, e in entries:
            if kind == 'f':
                p = os.path.join(path, e)
                with open(p, 'w') as f:
                    if e == '__init__.py':
                        f.write('')
                    elif e.endswith('.py'):
                        f.write(MODULE_SRC)
                    else:
                        f.write('content of %s\n' % e)
            else:
                p = os.path.join(path, e['name'])
                os.makedirs(p, exist_ok=True)
                walk(e, p)
    walk(tree, base)


def iter_dirs(tree, path=''):
    yield path, tree
    for d in tree['dirs']:
        yield from iter_dirs(d, os.path.join(path, d['name']))


class ScandirOrder:
    """context manager: os.scandir returns entries in a generated order"""

    def __init__(self, seed):
        self.seed = seed

    def __enter__(self):
        self.orig = os.scandir
        seed = self.seed
        orig = self.orig

        class _Scan:
            def __init__(self, path='.'):
                it = orig(path)
                try:
                    ents = list(it)
                finally:
                    it.close()
                ents.sort(key=lambda e: hashlib.blake2b(('%d/%s' % (seed, e.name)).encode(), digest_size=8).digest())
                self._iter = iter(ents)

            def __iter__(self):
                return self

            def __next__(self):
                return next(self._iter)

            def __enter__(self):
                return self

            def __exit__(self, *a):
                return False

            def close(self):
                pass

        os.scandir = _Scan
        return self

    def __exit__(self, *a):
        os.scandir = self.orig
        return False


def purge_modules_under(base):
    base = os.path.realpath(base)
    hits = []
    for name, mod in list(sys.modules.items()):
        try:
            f = getattr(mod, '__file__', None)
            hit = bool(f) and os.path.realpath(f).startswith(base)
            if not hit:
                # namespace packages: _NamespacePath recomputes lazily, read the raw list
                paths = getattr(mod, '__path__', None)
                raw = getattr(paths, '_path', paths) or []
                hit = any(os.path.realpath(p).startswith(base) for p in list(raw))
        except Exception:  # noqa: BLE001
            hit = False
        if hit:
            hits.append(name)
    for name in sorted(hits, key=len, reverse=True):
        sys.modules.pop(name, None)
    import importlib
    importlib.invalidate_caches()


def read_trace(path):
    out = []
    try:
        with open(path) as f:
            for line in f:
                if line.strip():
                    out.append(json.loads(line))
    except FileNotFoundError:
        pass
    return out
