"""Run the repository's shuffle.py under an arbitrary interpreter (no third-party packages needed).

usage: python xver_shuffle.py <repo_src> < vectors.json  > orders.json
vectors: [[seed, {layer_name: n_tests, ...}], ...]   (seed may be an int or a decimal string for huge ints)
"""
import importlib.util
import json
import sys
import types


def main():
    repo_src = sys.argv[1]
    # stub package: zope.testrunner.feature.Feature
    for name in ('zope', 'zope.testrunner', 'zope.testrunner.feature'):
        m = types.ModuleType(name)
        m.__path__ = []
        sys.modules[name] = m

    class Feature(object):
        active = False

        def __init__(self, runner):
            self.runner = runner
    sys.modules['zope.testrunner.feature'].Feature = Feature
    sys.modules['zope.testrunner'].feature = sys.modules['zope.testrunner.feature']
    sys.modules['zope'].testrunner = sys.modules['zope.testrunner']
    spec = importlib.util.spec_from_file_location('zope.testrunner.shuffle', repo_src + '/zope/testrunner/shuffle.py')
    mod = importlib.util.module_from_spec(spec)
    spec.loader.exec_module(mod)

    class Suite(list):
        pass

    class Output(object):
        def info(self, msg):
            pass

    out = []
    for seed, layers in json.load(sys.stdin):
        seed = int(seed)
        opts = types.SimpleNamespace(shuffle=True, shuffle_seed=seed, output=Output())
        runner = types.SimpleNamespace(options=opts, tests_by_layer_name={
            name: Suite('%s:%d' % (name, i) for i in range(n)) for name, n in layers.items()})
        f = mod.Shuffle(runner)
        f.global_setup()
        out.append({name: list(s) for name, s in runner.tests_by_layer_name.items()})
    json.dump(out, sys.stdout)


if __name__ == '__main__':
    main()
