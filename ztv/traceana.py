"""Oracles over the event trace (what actually happened) and over the parsed output (what was claimed)."""
from . import model


def by_pid(trace):
    out = {}
    for e in trace:
        out.setdefault(e['pid'], []).append(e)
    return out


class World:
    """spec-derived lookup tables shared by the oracles"""

    def __init__(self, spec):
        from . import runtime
        self.spec = spec
        self.kinds = runtime.effective_kind(spec)
        self.eff = model.effective_hooks(spec, self.kinds)
        self.names = [L['name'] for L in spec['layers']]
        self.idx = {n: i for i, n in enumerate(self.names)}
        self.closure = [model.closure(spec, i) for i in range(len(self.names))]
        self.tests = {}
        for rec in model.resolve(spec):
            self.tests[rec['id']] = rec
        self.full = {model.layer_fullname(spec, i): i for i in range(len(self.names))}
        self.full[model.UNIT_NAME] = model.UNIT

    def has(self, i, hook):
        return hook in self.eff[i]

    def clo(self, i):
        if i == model.UNIT or i is None or isinstance(i, str):
            return set()
        return self.closure[i]

    def is_base_of(self, a, b):
        """a is a transitive base of b (a != b)"""
        return a != b and a in self.clo(b)


# ----------------------------------------------------------------------------------------------
# C01: layer stack discipline over the trace


def check_layer_stack(w, events, pid_label='', resumed_parent=False):
    """events of ONE pid.  Returns list of (sig, msg)."""
    viol = []
    up = set()            # layers (both hooks) whose setUp returned and tearDown not yet entered
    ever_up = set()       # layers whose setUp returned at least once (for layers without tearDown)
    setup_ok = {}         # layer -> number of successful setUps
    td_attempts = {}      # layer -> number of tearDown entries
    in_setup = None
    nie_seen = False
    for e in events:
        if e['ev'] == 'L' and e['h'] in ('setUp', 'tearDown'):
            i = w.idx.get(e['layer'])
            if i is None:
                continue
            if e['h'] == 'setUp':
                if e['ph'] == 'enter':
                    if nie_seen:
                        viol.append(('C01/setup-after-NotImplementedError',
                                     'layer %s setUp ran in pid%s after a tearDown raised NotImplementedError'
                                     % (e['layer'], pid_label)))
                    if i in up:
                        viol.append(('C01/setup-while-set-up', 'setUp of %s entered while it is set up' % e['layer']))
                    for b in w.clo(i) - {i}:
                        if w.has(b, 'setUp'):
                            ok = (b in up) if w.has(b, 'tearDown') else (b in ever_up)
                            if not ok:
                                viol.append(('C01/setup-before-base',
                                             'setUp of %s entered while its base %s is not set up'
                                             % (e['layer'], w.names[b])))
                    in_setup = i
                elif e['ph'] == 'exit':
                    ever_up.add(i)
                    setup_ok[i] = setup_ok.get(i, 0) + 1
                    if w.has(i, 'tearDown'):
                        up.add(i)
                    in_setup = None
                else:
                    in_setup = None
            else:
                if e['ph'] == 'enter':
                    td_attempts[i] = td_attempts.get(i, 0) + 1
                    for d in list(up):
                        if w.is_base_of(i, d):
                            viol.append(('C01/teardown-before-derived',
                                         'tearDown of %s entered while derived layer %s is still set up'
                                         % (e['layer'], w.names[d])))
                    if w.has(i, 'setUp') and i not in up:
                        viol.append(('C01/teardown-while-not-set-up',
                                     'tearDown of %s entered although it is not set up' % e['layer']))
                    up.discard(i)
                elif e['ph'] == 'raise' and e.get('exc') == 'NIE':
                    nie_seen = True
        elif e['ev'] == 'T' and e['ph'] == 'setUp':
            rec = w.tests.get(e['id'])
            if rec is None:
                continue
            if nie_seen:
                viol.append(('C01/test-after-NotImplementedError',
                             'test %s started in pid%s after a tearDown raised NotImplementedError'
                             % (e['id'], pid_label)))
            need = w.clo(rec['layer'])
            need_obs = {j for j in need if w.has(j, 'setUp') and w.has(j, 'tearDown')}
            if up != need_obs:
                viol.append(('C01/wrong-layers-at-test',
                             'test %s (layer %s) ran with layers %s set up, needs exactly %s'
                             % (e['id'], rec['layer_name'], sorted(w.names[j] for j in up),
                                sorted(w.names[j] for j in need_obs))))
            for j in need:
                if w.has(j, 'setUp') and not w.has(j, 'tearDown') and j not in ever_up:
                    viol.append(('C01/needed-layer-never-set-up',
                                 'test %s ran but needed layer %s was never set up' % (e['id'], w.names[j])))
    for i in up:
        viol.append(('C01/never-torn-down', 'layer %s was set up in pid%s but tearDown was never attempted'
                     % (w.names[i], pid_label)))
    for i, n in td_attempts.items():
        if w.has(i, 'setUp') and n != setup_ok.get(i, 0):
            viol.append(('C01/teardown-count', 'layer %s: %d successful setUp but %d tearDown attempts in pid%s'
                         % (w.names[i], setup_ok.get(i, 0), n, pid_label)))
    return viol


def check_claimed_stack(w, parsed):
    """the same discipline over the runner's own 'Set up' / 'Tear down' lines (covers hook-less layers).

    A block that says 'Running in a subprocess.' is a different process with its own (empty) state."""
    viol = []

    def idx(name):
        if name in w.full:
            return w.full[name]
        return name   # e.g. '.EmptyLayer'

    def clo(i):
        if isinstance(i, str) or i == model.UNIT:
            return {i}
        return w.clo(i)

    main_up = []
    from .parse import RE_SETUP, RE_SETUP_START, RE_TEARDOWN_START, RE_RAN
    for blk in parsed.blocks:
        up = main_up
        in_child = False
        for line in blk.lines:
            if line == '  Running in a subprocess.':
                # everything before this line was printed by the parent, the rest by a fresh process
                up = []
                in_child = True
                continue
            m = RE_SETUP_START.match(line)
            if m:
                a = m.group(1)
                i = idx(a)
                if i in up:
                    viol.append(('C01/claimed-setup-while-set-up', 'output: "Set up %s" while it is set up' % a))
                for b in clo(i) - {i}:
                    if b not in up:
                        viol.append(('C01/claimed-setup-before-base', 'output: "Set up %s" before its base %s'
                                     % (a, w.names[b] if isinstance(b, int) and b >= 0 else b)))
                if RE_SETUP.match(line):
                    up.append(i)
                continue
            m = RE_TEARDOWN_START.match(line)
            if m:
                a = m.group(1)
                i = idx(a)
                for d in up:
                    if isinstance(d, int) and d >= 0 and isinstance(i, int) and w.is_base_of(i, d):
                        viol.append(('C01/claimed-teardown-before-derived',
                                     'output: "Tear down %s" while derived %s is set up' % (a, w.names[d])))
                if i not in up:
                    viol.append(('C01/claimed-teardown-while-not-set-up',
                                 'output: "Tear down %s" but it is not set up' % a))
                else:
                    up.remove(i)
                continue
            m = RE_RAN.match(line)
            if m and int(m.group(1)) > 0:
                need = clo(idx(blk.layer))
                if set(up) != need:
                    viol.append(('C01/claimed-wrong-layers-at-tests',
                                 'output: tests of %s ran with %s set up' % (blk.layer, up)))
        if in_child and up:
            viol.append(('C01/claimed-never-torn-down', 'output: subprocess for %s left %s set up' % (blk.layer, up)))
    for name, st in parsed.leftover:
        i = idx(name)
        if i in main_up:
            main_up.remove(i)
        else:
            viol.append(('C01/claimed-teardown-while-not-set-up', 'output: left-over "Tear down %s" but not set up' % name))
    if main_up:
        viol.append(('C01/claimed-never-torn-down', 'output: %s never torn down' % main_up))
    return viol


# ----------------------------------------------------------------------------------------------
# C05: per-test hooks bracket every test


def check_per_test_hooks(w, events, skipped_layers=()):
    """events of ONE pid.  Brackets are delimited exactly by the 'run'/'ran' events the world's test classes
    emit around ``TestCase.run`` (this also covers tests that never start)."""
    viol = []
    counter = {}
    cur = None          # id of the test whose run() is active
    S, T = [], []       # layers in call order inside the current bracket
    started = False     # the test's own setUp was reached
    last_phase_after_T = False
    setup_after_start = False

    def names(xs):
        return [w.names[j] for j in xs]

    def close():
        rec = w.tests.get(cur)
        if rec is None:
            return
        need = w.clo(rec['layer'])
        exp_s = {j for j in need if w.has(j, 'testSetUp')}
        exp_t = {j for j in need if w.has(j, 'testTearDown')}
        never_starts = not started and (rec['t']['k'] == 'skip_deco' or rec['skip_class'])
        if never_starts and not S and not T:
            return      # "neither" is accepted for a test that never starts
        if set(S) != exp_s or len(S) != len(set(S)):
            sig = 'C05/teardown-without-setup' if (never_starts and not S and T) else 'C05/testSetUp-set'
            viol.append((sig, 'test %s: testSetUp called on %s, expected once on each of %s (testTearDown on %s)'
                         % (cur, names(S), sorted(names(exp_s)), names(T))))
        if set(T) != exp_t or len(T) != len(set(T)):
            viol.append(('C05/testTearDown-set', 'test %s: testTearDown called on %s, expected once on each of %s'
                         % (cur, names(T), sorted(names(exp_t)))))
        for a in range(len(S)):
            for b in range(a + 1, len(S)):
                if w.is_base_of(S[b], S[a]):
                    viol.append(('C05/testSetUp-order', 'testSetUp of %s before its base %s (test %s)'
                                 % (w.names[S[a]], w.names[S[b]], cur)))
        for a in range(len(T)):
            for b in range(a + 1, len(T)):
                x, y = T[a], T[b]
                if w.is_base_of(x, y):
                    viol.append(('C05/testTearDown-order', 'testTearDown of base %s before derived %s (test %s)'
                                 % (w.names[x], w.names[y], cur)))
                elif x in S and y in S and S.index(x) < S.index(y):
                    viol.append(('C05/testTearDown-not-mirrored',
                                 'testSetUp order %s but testTearDown order %s (test %s)' % (names(S), names(T), cur)))
        if last_phase_after_T:
            viol.append(('C05/test-code-after-testTearDown', 'test %s ran code after testTearDown started' % cur))
        if setup_after_start:
            viol.append(('C05/testSetUp-after-test-started', 'test %s: testSetUp called after the test\'s own setUp'
                         % cur))

    for e in events:
        if e['ev'] == 'T':
            if e['ph'] == 'run':
                if cur is not None:
                    close()
                cur, S, T, started, last_phase_after_T, setup_after_start = e['id'], [], [], False, False, False
            elif e['ph'] == 'ran':
                if cur is not None:
                    close()
                cur = None
            elif cur is not None:
                if e['ph'] == 'setUp':
                    started = True
                if T:
                    last_phase_after_T = True
        elif e['ev'] == 'L' and e['h'] in ('testSetUp', 'testTearDown') and e['ph'] == 'enter':
            i = w.idx.get(e['layer'])
            if i is None:
                continue
            if cur is None:
                viol.append(('C05/hook-outside-test', '%s of %s called outside any test' % (e['h'], e['layer'])))
                continue
            if e['h'] == 'testSetUp':
                S.append(i)
                if started:
                    setup_after_start = True
                if w.has(i, 'testTearDown'):
                    counter[i] = counter.get(i, 0) + 1
                    if counter[i] > 1:
                        viol.append(('C05/unbalanced-double-setup', 'testSetUp on %s twice without testTearDown'
                                     % e['layer']))
                        counter[i] = 1
            else:
                T.append(i)
                if w.has(i, 'testSetUp'):
                    counter[i] = counter.get(i, 0) - 1
                    if counter[i] < 0:
                        viol.append(('C05/teardown-without-setup',
                                     'testTearDown on %s without a matching testSetUp (test %s)' % (e['layer'], cur)))
                        counter[i] = 0
    if cur is not None:
        close()
    for i, c in counter.items():
        if c != 0:
            viol.append(('C05/unbalanced-at-end', 'layer %s: testSetUp/testTearDown not balanced at end (%+d)'
                         % (w.names[i], c)))
    return viol


def check_per_test_hooks_debug(w, events):
    """the same bracket discipline for runs in post-mortem mode (-D): there the runner calls startTest / test.debug()
    / stopTest itself, so the per-test hooks lie *around* the world's run..ran events instead of inside them.
    A bracket is: testSetUp calls, [run .. ran], testTearDown calls."""
    viol = []
    counter = {}
    st = {'cur': None, 'S': [], 'T': [], 'phase': 'idle', 'started': False}

    def names(xs):
        return [w.names[j] for j in xs]

    def close():
        cur, S, T = st['cur'], st['S'], st['T']
        if cur is None:
            if S or T:
                viol.append(('C05/hook-outside-test', 'testSetUp on %s / testTearDown on %s without any test between them'
                             % (names(S), names(T))))
        else:
            rec = w.tests.get(cur)
            if rec is not None:
                need = w.clo(rec['layer'])
                exp_s = {j for j in need if w.has(j, 'testSetUp')}
                exp_t = {j for j in need if w.has(j, 'testTearDown')}
                if set(S) != exp_s or len(S) != len(set(S)):
                    viol.append(('C05/testSetUp-set', 'test %s (-D): testSetUp called on %s, expected once on each of %s'
                                 % (cur, names(S), sorted(names(exp_s)))))
                if set(T) != exp_t or len(T) != len(set(T)):
                    viol.append(('C05/testTearDown-set', 'test %s (-D): testTearDown called on %s, expected once on each '
                                 'of %s' % (cur, names(T), sorted(names(exp_t)))))
                for a in range(len(S)):
                    for b in range(a + 1, len(S)):
                        if w.is_base_of(S[b], S[a]):
                            viol.append(('C05/testSetUp-order', 'testSetUp of %s before its base %s (test %s)'
                                         % (w.names[S[a]], w.names[S[b]], cur)))
                for a in range(len(T)):
                    for b in range(a + 1, len(T)):
                        x, y = T[a], T[b]
                        if w.is_base_of(x, y):
                            viol.append(('C05/testTearDown-order', 'testTearDown of base %s before derived %s (test %s)'
                                         % (w.names[x], w.names[y], cur)))
                        elif x in S and y in S and S.index(x) < S.index(y):
                            viol.append(('C05/testTearDown-not-mirrored', 'testSetUp order %s but testTearDown order %s '
                                         '(test %s)' % (names(S), names(T), cur)))
        st.update(cur=None, S=[], T=[], phase='idle')

    for e in events:
        if e['ev'] == 'T' and e['ph'] == 'run':
            if st['phase'] in ('post', 'in'):
                close()
            st['cur'] = e['id']
            st['phase'] = 'in'
        elif e['ev'] == 'T' and e['ph'] == 'ran':
            st['phase'] = 'post'
        elif e['ev'] == 'L' and e['h'] in ('testSetUp', 'testTearDown') and e['ph'] == 'enter':
            i = w.idx.get(e['layer'])
            if i is None:
                continue
            if e['h'] == 'testSetUp':
                if st['phase'] == 'post':
                    close()
                if st['phase'] == 'in':
                    viol.append(('C05/testSetUp-after-test-started', 'testSetUp of %s while test %s is running'
                                 % (e['layer'], st['cur'])))
                st['S'].append(i)
                if st['phase'] == 'idle':
                    st['phase'] = 'pre'
                if w.has(i, 'testTearDown'):
                    counter[i] = counter.get(i, 0) + 1
                    if counter[i] > 1:
                        viol.append(('C05/unbalanced-double-setup', 'testSetUp on %s twice without testTearDown'
                                     % e['layer']))
                        counter[i] = 1
            else:
                if st['phase'] == 'in':
                    viol.append(('C05/test-code-after-testTearDown', 'testTearDown of %s while test %s is running'
                                 % (e['layer'], st['cur'])))
                st['T'].append(i)
                if w.has(i, 'testSetUp'):
                    counter[i] = counter.get(i, 0) - 1
                    if counter[i] < 0:
                        viol.append(('C05/teardown-without-setup', 'testTearDown on %s without a matching testSetUp'
                                     % e['layer']))
                        counter[i] = 0
    if st['phase'] != 'idle':
        close()
    for i, c in counter.items():
        if c != 0:
            viol.append(('C05/unbalanced-at-end', 'layer %s: testSetUp/testTearDown not balanced at end (%+d)'
                         % (w.names[i], c)))
    return viol
