"""ztv - property-based verification harness for zope.testrunner."""
