"""Check orchestration: workers, Hypothesis driving, known findings, replay files, evidence.

A property module (``ztv.props.cNN``) exposes ``PROP``, an instance of :class:`Prop` holding one or
more :class:`Part`.  A part is *one executable statement of the property*: a generator (Hypothesis
strategy and/or an exhaustive enumerator) plus ``execute(case) -> Outcome`` containing the oracle.

Exit status of ``check``: 0 held, 1 violation (with ``VIOLATION property=<id> replay=<path>``),
2 harness error / inconclusive (never prints VIOLATION).
"""
import hashlib
import json
import os
import subprocess
import sys
import tempfile
import time
import traceback

from . import boot, findings

NWORKERS = int(os.environ.get('ZTV_WORKERS', '16'))


class Outcome:
    __slots__ = ('viol', 'labels', 'nontrivial', 'key')

    def __init__(self, viol=(), labels=(), nontrivial=False, key=None):
        self.viol = list(viol)
        self.labels = list(labels)
        self.nontrivial = bool(nontrivial)
        self.key = key


class HarnessError(Exception):
    """The harness (not the code under test) is wrong/inconclusive: exit 2, never VIOLATION."""


class Part:
    name = 'main'
    #: total number of generated cases per tier (spread over the workers)
    examples = {'quick': 100, 'thorough': 1000}
    #: seconds Hypothesis may spend shrinking a failure
    shrink_cap = {'quick': 45, 'thorough': 240}

    def strategy(self, tier):
        return None

    def enumerate(self, tier, w, nworkers):
        """Exhaustively enumerated cases for worker ``w`` (finite sub-space), or ()"""
        return ()

    exhaustive_note = None

    def execute(self, case):
        raise NotImplementedError

    def setup(self):
        pass


class Prop:
    id = None
    rule = ''
    assumptions = ()
    parts = ()
    level = "exploration"
    registered = False
    technique = ""
    level_text = ""
    level_note = ""

    def hashseed(self, w):
        return '0'

    def selftest(self):
        """Harness self-validation, run once per check; raise HarnessError when the harness is off."""


def load_prop(prop_id):
    import importlib
    mod = importlib.import_module('ztv.props.%s' % prop_id.lower())
    return mod.PROP


def case_hash(obj):
    s = obj if isinstance(obj, str) else json.dumps(obj, sort_keys=True, default=str)
    return int.from_bytes(hashlib.blake2b(s.encode('utf-8', 'backslashreplace'),
                                          digest_size=8).digest(), 'big')


def _trunc(obj, limit=1800):
    s = json.dumps(obj, sort_keys=True, default=str)
    if len(s) <= limit:
        return obj
    return {'truncated_json': s[:limit] + '...', 'full_length': len(s)}


# ----------------------------------------------------------------------------------------------
# worker side


class Stats:
    def __init__(self):
        self.evaluations = 0
        self.nontrivial = set()
        self.labels = {}
        self.samples = []
        self.known_hits = {}
        self.failures = {}     # signature -> (size, part, case, message)
        self.per_part = {}
        self.exhaustive_parts = {}
        self.enum_nontrivial = 0   # enumerated cases are distinct by construction: counted, not hashed

    def to_json(self):
        return {
            'evaluations': self.evaluations,
            'nontrivial': sorted(self.nontrivial),
            'labels': self.labels,
            'samples': self.samples,
            'known_hits': self.known_hits,
            'failures': {sig: {'part': p, 'case': c, 'message': m}
                         for sig, (_, p, c, m) in self.failures.items()},
            'per_part': self.per_part,
            'exhaustive_parts': self.exhaustive_parts,
            'enum_nontrivial': self.enum_nontrivial,
        }


class _Fail(Exception):
    pass


def run_case(prop, part, case, stats, known, enumerated=False):
    """Execute one case, account for it, return list of unknown (sig, msg)."""
    out = part.execute(case)
    stats.evaluations += 1
    if stats.evaluations % 500 == 0:
        _freeze()
    pp = stats.per_part.setdefault(part.name, {'evaluations': 0, 'nontrivial': 0})
    pp['evaluations'] += 1
    for lab in out.labels:
        k = '%s:%s' % (part.name, lab)
        stats.labels[k] = stats.labels.get(k, 0) + 1
    if out.nontrivial and enumerated:
        stats.enum_nontrivial += 1
        pp['nontrivial'] += 1
        if sum(1 for s in stats.samples if s.get('part') == part.name) < 2:
            stats.samples.append({'part': part.name, 'case': _trunc(case)})
    elif out.nontrivial:
        h = case_hash(out.key if out.key is not None else [part.name, case])
        if h not in stats.nontrivial:
            stats.nontrivial.add(h)
            pp['nontrivial'] += 1
            nsamp = sum(1 for s in stats.samples if s.get('part') == part.name)
            if nsamp < 2:
                stats.samples.append({'part': part.name, 'case': _trunc(case)})
    unknown = []
    for sig, msg in out.viol:
        if sig in known:
            stats.known_hits[sig] = stats.known_hits.get(sig, 0) + 1
            continue
        unknown.append((sig, msg))
        size = len(json.dumps(case, default=str))
        old = stats.failures.get(sig)
        if old is None or size < old[0]:
            stats.failures[sig] = (size, part.name, case, msg)
    return unknown


def _freeze():
    # the runner calls gc.collect() twice per layer; keep the (large, static) harness heap out of it
    import gc
    gc.collect()
    gc.freeze()


def _limit_memory():
    """a worker (and everything it starts) that grows beyond all reason ends with MemoryError / a harness error
    instead of taking the machine down"""
    try:
        import resource
        gb = float(os.environ.get('ZTV_MEM_LIMIT_GB', '8'))
        if gb > 0:
            lim = int(gb * (1 << 30))
            resource.setrlimit(resource.RLIMIT_AS, (lim, lim))
    except Exception:  # noqa: BLE001
        pass


def worker_main(argv):
    prop_id, tier, seed, w, nworkers, outfile = argv
    seed, w, nworkers = int(seed), int(w), int(nworkers)
    boot.bootstrap()
    _limit_memory()
    result = {'ok': False}
    stats = Stats()
    try:
        prop = load_prop(prop_id)
        known = findings.known_for(prop.id)
        only = os.environ.get('ZTV_ONLY_PART')
        for part in prop.parts:
            if only and part.name != only:
                continue
            part.setup()
            _freeze()
            _run_part(prop, part, tier, seed, w, nworkers, stats, known)
        result['ok'] = True
    except HarnessError as e:
        result['error'] = 'HarnessError: %s' % e
    except BaseException:
        result['error'] = traceback.format_exc()
    result['stats'] = stats.to_json()
    tmp = outfile + '.tmp'
    with open(tmp, 'w') as f:
        json.dump(result, f, default=str)
    os.replace(tmp, outfile)
    return 0


def _run_part(prop, part, tier, seed, w, nworkers, stats, known):
    # 1. exhaustive sub-space, sharded
    n_enum = 0
    for case in part.enumerate(tier, w, nworkers):
        n_enum += 1
        run_case(prop, part, case, stats, known, enumerated=True)
    if n_enum or part.exhaustive_note:
        stats.exhaustive_parts[part.name] = stats.exhaustive_parts.get(part.name, 0) + n_enum

    # 2. generated cases
    strat = part.strategy(tier)
    total = part.examples.get(tier, 0)
    if strat is None or not total:
        return
    total = max(1, int(total * float(os.environ.get('ZTV_SCALE', '1'))))
    n = max(1, (total + nworkers - 1) // nworkers)
    import hypothesis
    from hypothesis import HealthCheck, Phase, given, settings

    state = {'pinned': None, 't_fail': None, 'harness': None}
    cap = part.shrink_cap.get(tier, 45)

    @hypothesis.seed(seed * 1000 + w)
    @settings(max_examples=n, database=None, deadline=None, derandomize=False,
              report_multiple_bugs=False, suppress_health_check=list(HealthCheck),
              phases=[Phase.generate, Phase.shrink], print_blob=False)
    @given(strat)
    def test(case):
        if state['harness'] is not None:
            return
        if state['t_fail'] is not None and time.time() - state['t_fail'] > cap:
            return  # shrinking budget used up: stop failing so that Hypothesis terminates
        try:
            unknown = run_case(prop, part, case, stats, known)
        except HarnessError as e:
            state['harness'] = e
            return
        if state['pinned'] is not None:
            unknown = [u for u in unknown if u[0] == state['pinned']]
        if unknown:
            if state['pinned'] is None:
                state['pinned'] = unknown[0][0]
                state['t_fail'] = time.time()
            raise _Fail(unknown[0][0])

    try:
        test()
    except _Fail:
        pass
    except HarnessError:
        raise
    except BaseException as e:
        # Flaky / Unsatisfiable etc. after the shrink cap are expected; failures are in stats
        if not stats.failures and state['harness'] is None:
            if type(e).__name__ in ('Flaky', 'FlakyFailure', 'FlakyReplay'):
                pass
            else:
                raise
    if state['harness'] is not None:
        raise state['harness']


# ----------------------------------------------------------------------------------------------
# parent side


def _worker_env(prop, w):
    env = dict(os.environ)
    env['PYTHONHASHSEED'] = str(prop.hashseed(w))
    env['PYTHONDONTWRITEBYTECODE'] = '1'
    env['PYTHONUNBUFFERED'] = '1'
    env['PYTHONWARNINGS'] = 'ignore'
    env.pop('COVERAGE_PROCESS_START', None)
    env.pop('COVERAGE_PROCESS_CONFIG', None)
    return env


def tagged_pids(tag):
    """pids of every live process (other than this one) that carries ZTV_RUN_TAG=tag in its environment"""
    needle = ('ZTV_RUN_TAG=%s' % tag).encode()
    found = []
    for name in os.listdir('/proc'):
        if not name.isdigit() or int(name) == os.getpid():
            continue
        try:
            with open('/proc/%s/environ' % name, 'rb') as f:
                if needle in f.read().split(b'\0'):
                    found.append(int(name))
        except OSError:
            pass
    return found


def kill_tagged(tag):
    """no process started by this check (worker, runner, layer subprocess, orphan) outlives it"""
    for _ in range(3):
        pids = tagged_pids(tag)
        if not pids:
            return
        for pid in pids:
            try:
                os.kill(pid, 9)
            except OSError:
                pass
        time.sleep(0.2)


def _watchdog(tag, limit, state):
    import threading

    def loop():
        while not state.get('stop'):
            time.sleep(5)
            try:
                n = len(tagged_pids(tag))
            except Exception:  # noqa: BLE001
                continue
            state['peak'] = max(state.get('peak', 0), n)
            if n > limit:
                state['tripped'] = n
                kill_tagged(tag)
                return
    t = threading.Thread(target=loop, daemon=True)
    t.start()
    return t


def out_dir():
    """where evidence and new replay files go (ZTV_OUT redirects them, e.g. while a seeded change is evaluated)"""
    return os.environ.get('ZTV_OUT') or boot.VERIF_DIR


def write_replay(prop_id, sig, part, case, message):
    d = os.path.join(out_dir(), 'replays', prop_id)
    os.makedirs(d, exist_ok=True)
    h = '%016x' % case_hash([sig, part, case])
    path = os.path.join(d, 'viol-%s.json' % h[:12])
    with open(path, 'w') as f:
        json.dump({'property': prop_id, 'signature': sig, 'part': part, 'case': case,
                   'message': message}, f, indent=1, sort_keys=True, default=str)
    return path


def run_replay_file(prop, path, known, stats=None):
    with open(path) as f:
        rep = json.load(f)
    part = {p.name: p for p in prop.parts}.get(rep['part'])
    if part is None:
        raise HarnessError('replay %s names unknown part %r' % (path, rep['part']))
    part.setup()
    stats = stats or Stats()
    return run_case(prop, part, rep['case'], stats, known), rep


def replay_worker_main(argv):
    """Run all committed replays of a property (regression tier); prints JSON to outfile."""
    prop_id, outfile = argv
    boot.bootstrap()
    res = {'ok': False, 'results': []}
    try:
        prop = load_prop(prop_id)
        known = findings.known_for(prop.id)
        d = os.path.join(boot.VERIF_DIR, 'replays', prop.id)
        stats = Stats()
        for name in sorted(os.listdir(d)) if os.path.isdir(d) else []:
            if not name.endswith('.json'):
                continue
            path = os.path.join(d, name)
            unknown, rep = run_replay_file(prop, path, known, stats)
            res['results'].append({'path': path, 'unknown': unknown})
        res['stats'] = stats.to_json()
        res['ok'] = True
    except BaseException:
        res['error'] = traceback.format_exc()
    with open(outfile, 'w') as f:
        json.dump(res, f, default=str)
    return 0


def main(argv=None):
    argv = list(sys.argv[1:] if argv is None else argv)
    if not argv:
        print('usage: check <ID> <quick|thorough> | check <ID> --replay FILE', file=sys.stderr)
        return 2
    prop_id = argv.pop(0).upper()
    tier = os.environ.get('VERIF_TIER') or 'quick'
    replay = None
    while argv:
        a = argv.pop(0)
        if a in ('quick', 'thorough'):
            tier = a
        elif a == '--replay':
            replay = argv.pop(0)
        else:
            print('unknown argument %r' % a, file=sys.stderr)
            return 2
    try:
        seed = int(os.environ.get('VERIF_SEED', '0') or 0)
    except ValueError:
        seed = case_hash(os.environ['VERIF_SEED']) % (2 ** 31)
    boot.bootstrap()
    t0 = time.time()
    try:
        prop = load_prop(prop_id)
    except Exception:
        traceback.print_exc()
        return 2
    known = findings.known_for(prop.id)

    if replay:
        try:
            unknown, rep = run_replay_file(prop, replay, known)
        except Exception:
            traceback.print_exc()
            return 2
        for sig, msg in unknown:
            print('  %s: %s' % (sig, msg))
        if unknown:
            print('VIOLATION property=%s replay=%s' % (prop.id, replay))
            return 1
        print('replay %s: no violation' % replay)
        return 0

    try:
        prop.selftest()
    except HarnessError as e:
        print('HARNESS-ERROR %s selftest: %s' % (prop.id, e))
        return 2
    except Exception:
        traceback.print_exc()
        return 2

    tag = '%s-%d-%d' % (prop.id, os.getpid(), int(t0 * 1000))
    os.environ['ZTV_RUN_TAG'] = tag
    import atexit
    import signal
    atexit.register(kill_tagged, tag)
    for signum in (signal.SIGTERM, signal.SIGHUP, signal.SIGINT):
        signal.signal(signum, lambda *a: (kill_tagged(tag), os._exit(2)))
    wd_state = {}
    _watchdog(tag, int(os.environ.get('ZTV_MAX_PROCS', '700')), wd_state)
    tmpdir = tempfile.mkdtemp(prefix='ztv-%s-' % prop.id)
    os.environ.setdefault('ZTV_TMP', tmpdir)     # generated worlds live (and die) with the check's scratch directory
    procs = []
    nworkers = NWORKERS
    py = sys.executable
    # regression tier
    rep_out = os.path.join(tmpdir, 'replays.json')
    rp = subprocess.Popen([py, '-c', 'import sys; sys.path.insert(0, %r); '
                           'from ztv import engine; sys.exit(engine.replay_worker_main(sys.argv[1:]))'
                           % boot.VERIF_DIR, prop.id, rep_out], env=_worker_env(prop, 0),
                          cwd=tmpdir)
    for w in range(nworkers):
        out = os.path.join(tmpdir, 'w%d.json' % w)
        log = open(os.path.join(tmpdir, 'w%d.log' % w), 'wb')
        p = subprocess.Popen(
            [py, '-c', 'import sys; sys.path.insert(0, %r); from ztv import engine; '
             'sys.exit(engine.worker_main(sys.argv[1:]))' % boot.VERIF_DIR,
             prop.id, tier, str(seed), str(w), str(nworkers), out],
            env=_worker_env(prop, w), cwd=tmpdir, stdout=log, stderr=subprocess.STDOUT)
        procs.append((w, p, out, log))
    limit = float(os.environ.get('ZTV_TIMEOUT', '1500' if tier == 'quick' else '14000'))
    harness_errors = []
    merged = Stats()
    exhaustive_parts = {}
    deadline = t0 + limit
    for w, p, out, log in procs:
        try:
            p.wait(timeout=max(1, deadline - time.time()))
        except subprocess.TimeoutExpired:
            p.kill()
            p.wait()
            harness_errors.append('worker %d timed out (inconclusive)' % w)
        log.close()
        if not os.path.exists(out):
            with open(log.name, 'rb') as f:
                tail = f.read()[-3000:].decode('utf-8', 'replace')
            harness_errors.append('worker %d produced no result (rc=%s):\n%s' % (w, p.returncode, tail))
            continue
        with open(out) as f:
            res = json.load(f)
        if not res.get('ok'):
            harness_errors.append('worker %d: %s' % (w, res.get('error')))
        _merge(merged, res.get('stats') or {})
    try:
        rp.wait(timeout=max(1, deadline - time.time()))
    except subprocess.TimeoutExpired:
        rp.kill()
        harness_errors.append('replay worker timed out')
    replay_viol = []
    if os.path.exists(rep_out):
        with open(rep_out) as f:
            rres = json.load(f)
        if not rres.get('ok'):
            harness_errors.append('replay worker: %s' % rres.get('error'))
        for r in rres.get('results', []):
            if r['unknown']:
                replay_viol.append(r)
        rs = rres.get('stats') or {}
        rs['failures'] = {}
        _merge(merged, rs)
    else:
        harness_errors.append('replay worker produced no result')

    wd_state['stop'] = True
    kill_tagged(tag)
    if wd_state.get('tripped'):
        harness_errors.append('process watchdog: %d live processes, everything stopped (inconclusive)'
                              % wd_state['tripped'])
    import shutil
    shutil.rmtree(tmpdir, ignore_errors=True)

    wall = time.time() - t0
    viol_lines = []
    for r in replay_viol:
        for sig, msg in r['unknown']:
            print('  regression %s: %s' % (sig, msg))
        viol_lines.append('VIOLATION property=%s replay=%s' % (prop.id, r['path']))
    for sig, info in sorted(merged.failures.items()):
        _, part, case, msg = info
        path = write_replay(prop.id, sig, part, case, msg)
        print('  %s: %s' % (sig, msg))
        viol_lines.append('VIOLATION property=%s replay=%s' % (prop.id, path))

    _write_evidence(prop, tier, seed, merged, wall, len(viol_lines), harness_errors)

    for sig, e in sorted(known.items()):
        print('KNOWN-FINDING: property=%s %s -- %s (hits this run: %d)'
              % (prop.id, sig, e.get('what', ''), merged.known_hits.get(sig, 0)))
    print('%s %s seed=%d: %d cases, %d distinct non-trivial, %.1fs'
          % (prop.id, tier, seed, merged.evaluations, len(merged.nontrivial) + merged.enum_nontrivial, wall))
    for line in viol_lines:
        print(line)
    if viol_lines:
        return 1
    if harness_errors:
        for h in harness_errors:
            print('HARNESS-ERROR %s' % h)
        return 2
    return 0


def _merge(merged, st):
    merged.evaluations += st.get('evaluations', 0)
    merged.enum_nontrivial += st.get('enum_nontrivial', 0)
    merged.nontrivial.update(st.get('nontrivial', ()))
    for k, v in (st.get('labels') or {}).items():
        merged.labels[k] = merged.labels.get(k, 0) + v
    for s in st.get('samples') or ():
        if sum(1 for x in merged.samples if x.get('part') == s.get('part')) < 3:
            merged.samples.append(s)
    for k, v in (st.get('known_hits') or {}).items():
        merged.known_hits[k] = merged.known_hits.get(k, 0) + v
    for sig, info in (st.get('failures') or {}).items():
        size = len(json.dumps(info['case'], default=str))
        old = merged.failures.get(sig)
        if old is None or size < old[0]:
            merged.failures[sig] = (size, info['part'], info['case'], info['message'])
    for k, v in (st.get('per_part') or {}).items():
        pp = merged.per_part.setdefault(k, {'evaluations': 0, 'nontrivial': 0})
        pp['evaluations'] += v['evaluations']
        pp['nontrivial'] += v['nontrivial']
    for k, v in (st.get('exhaustive_parts') or {}).items():
        merged.exhaustive_parts[k] = merged.exhaustive_parts.get(k, 0) + v


def _write_evidence(prop, tier, seed, merged, wall, nviol, harness_errors):
    ev_dir = os.path.join(out_dir(), 'evidence')
    os.makedirs(ev_dir, exist_ok=True)
    ev = merged.evaluations or 1
    cov = {
        'evaluations': merged.evaluations,
        'distinct_nontrivial': len(merged.nontrivial) + merged.enum_nontrivial,
        'rule': prop.rule,
        'samples': merged.samples[:8],
        'label_distribution': {k: round(v / ev, 4) for k, v in sorted(merged.labels.items())},
        'label_counts': dict(sorted(merged.labels.items())),
        'per_part': merged.per_part,
        'known_finding_hits': merged.known_hits,
        'workers': NWORKERS,
    }
    if merged.exhaustive_parts:
        cov['exhaustively_enumerated_parts'] = {
            k: {'cases': v, 'space': next((p.exhaustive_note for p in prop.parts if p.name == k), None)}
            for k, v in merged.exhaustive_parts.items()}
        cov['exhaustive'] = False  # the property as a whole quantifies over an unbounded space
    if harness_errors:
        cov['harness_errors'] = [h[:500] for h in harness_errors]
    doc = {
        'property_id': prop.id, 'tier': tier, 'seed': seed, 'level': prop.level,
        'coverage': cov, 'assumptions': list(prop.assumptions),
        'wall_s': round(wall, 2), 'violations': nviol,
    }
    path = os.path.join(ev_dir, '%s.json' % prop.id)
    with open(path + '.tmp', 'w') as f:
        json.dump(doc, f, indent=1, sort_keys=True, default=str)
    os.replace(path + '.tmp', path)
